"""A sequence-file stand-in whose reading fails with a chosen exception class (picklable: process pools ship it to workers).

calc_file_signature(s) only uses ``seqfile.parse()``; real files on this machine cannot be made to fail with, say,
ETIMEDOUT (hung network mount) or EIO, so the failure is injected at that one call."""

import errno
from pathlib import Path


def make_exc(name):
	import concurrent.futures
	return {
		'timeout': lambda: TimeoutError(errno.ETIMEDOUT, 'Connection timed out'),
		'eio': lambda: OSError(errno.EIO, 'Input/output error'),
		'estale': lambda: OSError(errno.ESTALE, 'Stale file handle'),
		'interrupted': lambda: InterruptedError(errno.EINTR, 'Interrupted system call'),
		'blocking': lambda: BlockingIOError(errno.EAGAIN, 'Resource temporarily unavailable'),
		'permission': lambda: PermissionError(errno.EACCES, 'Permission denied'),
		'memory': lambda: MemoryError(),
		'eof': lambda: EOFError('Compressed file ended before the end-of-stream marker was reached'),
		'stopiteration': lambda: StopIteration(),
		'cancelled': lambda: concurrent.futures.CancelledError(),
		'futures_timeout': lambda: concurrent.futures.TimeoutError(),
		'broken_pool_lookalike': lambda: RuntimeError('cannot schedule new futures after shutdown'),
		'keyerror': lambda: KeyError('seq'),
		'assertion': lambda: AssertionError('record has no sequence'),
		'unicode': lambda: UnicodeDecodeError('utf-8', b'\xff', 0, 1, 'invalid start byte'),
		'value': lambda: ValueError('not a FASTA file'),
	}[name]()


class _Record:
	def __init__(self, seq):
		self.seq = seq


class _Parsing:
	def __init__(self, exc, phase):
		self.exc, self.phase = exc, phase

	def __enter__(self):
		if self.phase == 'enter':
			raise make_exc(self.exc)
		return self._records()

	def _records(self):
		yield _Record(b'ATACGTACGTACGTAATTACGCGCGCATATCG')
		raise make_exc(self.exc)

	def __exit__(self, *a):
		return False


class FaultyFile:
	def __init__(self, path, exc, phase):
		self.path = Path(path)
		self.format = 'fasta'
		self.compression = None
		self.exc = exc
		import os
		self.owner_pid = os.getpid()
		self.phase = phase       # 'call' (parse() itself raises) | 'enter' (entering the context) | 'mid' (after the first record)

	def __fspath__(self):
		return str(self.path)

	def __str__(self):
		return str(self.path)

	def open(self, *a, **kw):
		raise make_exc(self.exc)

	def parse(self, **kw):
		if self.exc == 'worker_killed':
			# the worker PROCESS handling this file dies abruptly (OOM killer, kill -9): only inside a pool worker, never in the
			# process that built the object
			import os, signal
			if os.getpid() != self.owner_pid:
				os.kill(os.getpid(), signal.SIGKILL)
			raise OSError(errno.EIO, 'Input/output error')
		if self.phase == 'call':
			raise make_exc(self.exc)
		return _Parsing(self.exc, self.phase)
