"""Fork-and-kill-at-call-n writer: process-level fault injection at storage-library call boundaries.

The child wraps the h5py entry points that gambit's writer uses (attribute set, dataset creation,
dataset write, flush, close) with a counter and SIGKILLs itself immediately *before* the n-th
wrapped call - no atexit handler, no H5close, no Python finalisation runs, exactly as when the
process dies. ``n = None`` is the dry run that reports how many wrapped calls a complete write makes;
``n = count`` kills right after ``close`` returned (the control: that file must load).
"""

import os
import signal
import struct


def _install(counter, kill_at, log, how='sigkill'):
	import h5py
	died = []

	def wrap(cls, name, label):
		orig = getattr(cls, name)

		def wrapper(self, *a, **kw):
			if kill_at is not None and counter[0] == kill_at and not died:
				died.append(True)       # only once: clean-up code that runs after a catchable signal must not be interrupted again
				_die(how)
			counter[0] += 1
			if label == 'open':
				# which file: the checks need to know when the OUTPUT path is first touched
				try:
					log.append('open:' + os.path.basename(os.fspath(a[0] if a else kw.get('name'))))
				except Exception:
					log.append('open')
			else:
				log.append(label)
			return orig(self, *a, **kw)
		setattr(cls, name, wrapper)

	# opening a file is a storage-library call too: a kill point before it covers everything a writer does between two files
	# (e.g. a command that touches its output path early and writes the data much later)
	wrap(h5py.File, '__init__', 'open')
	wrap(h5py.AttributeManager, '__setitem__', 'attr')
	wrap(h5py.Group, 'create_dataset', 'create_dataset')
	wrap(h5py.Dataset, '__setitem__', 'dataset_write')
	wrap(h5py.File, 'flush', 'flush')
	wrap(h5py.File, 'close', 'close')
	return died


def _die(how):
	"""End the process the way `how` says: SIGKILL (nothing runs), SIGTERM (default disposition unless the code under test
	installed a handler), SIGINT (Python turns it into KeyboardInterrupt, so `with` blocks and finalisers DO run)."""
	sig = {'sigkill': signal.SIGKILL, 'sigterm': signal.SIGTERM, 'sigint': signal.SIGINT}[how]
	os.kill(os.getpid(), sig)
	if how != 'sigkill':
		# give the interpreter a chance to deliver the signal at a bytecode boundary
		import time
		for _ in range(50):
			time.sleep(0.001)


def run_writer(write_fn, kill_at, how='sigkill'):
	"""Fork; in the child install the wrappers and call write_fn().

	Returns ('killed', None) if the child died by SIGKILL, ('done', (count, labels)) if it ran to
	completion (dry run), ('error', text) if the child failed otherwise.
	"""
	r, w = os.pipe()
	pid = os.fork()
	if pid == 0:
		# child
		try:
			os.close(r)
			# a writer process starts with the dispositions of an ordinary Python process, whatever the check itself inherited
			# (a check started as a background job of a non-interactive shell, or under nohup, inherits SIGINT ignored, and
			# Python then never installs its KeyboardInterrupt handler)
			signal.signal(signal.SIGINT, signal.default_int_handler)
			signal.signal(signal.SIGTERM, signal.SIG_DFL)
			signal.pthread_sigmask(signal.SIG_UNBLOCK, {signal.SIGINT, signal.SIGTERM})
			counter = [0]
			log = []
			died = _install(counter, kill_at, log, how)
			try:
				write_fn()
			except (KeyboardInterrupt, SystemExit) as e:
				if kill_at is not None and how != 'sigkill':
					# the writer was interrupted by the signal and unwound (context managers ran): the process now ends
					msg = b'I' + repr(e).encode('utf-8', 'replace')[:200]
					os.write(w, struct.pack('<I', len(msg)) + msg)
					os._exit(4)
				msg = ('E' + repr(e)).encode('utf-8', 'replace')[:4000]
				os.write(w, struct.pack('<I', len(msg)) + msg)
				os._exit(3)
			except BaseException as e:  # noqa
				if died and how != 'sigkill':
					# the signal was delivered and the code under test turned it into another exception while unwinding
					# (click turns KeyboardInterrupt into Abort): still an interrupted writer whose process now ends
					msg = b'I' + repr(e).encode('utf-8', 'replace')[:200]
					os.write(w, struct.pack('<I', len(msg)) + msg)
					os._exit(4)
				msg = ('E' + repr(e)).encode('utf-8', 'replace')[:4000]
				os.write(w, struct.pack('<I', len(msg)) + msg)
				os._exit(3)
			if kill_at is not None and counter[0] == kill_at:
				# kill point right after the last call (close) returned
				os.kill(os.getpid(), signal.SIGKILL)
			msg = ('C' + str(counter[0]) + ':' + ','.join(log)).encode()
			os.write(w, struct.pack('<I', len(msg)) + msg)
		finally:
			os._exit(0)
	os.close(w)
	data = b''
	while True:
		chunk = os.read(r, 65536)
		if not chunk:
			break
		data += chunk
	os.close(r)
	_, status = os.waitpid(pid, 0)
	if os.WIFSIGNALED(status) and os.WTERMSIG(status) in (signal.SIGKILL, signal.SIGTERM, signal.SIGINT):
		return 'killed', None
	if len(data) >= 4:
		n = struct.unpack('<I', data[:4])[0]
		msg = data[4:4 + n].decode('utf-8', 'replace')
		if msg.startswith('I'):
			return 'killed', msg[1:]
		if msg.startswith('C'):
			cnt, _, labels = msg[1:].partition(':')
			return 'done', (int(cnt), labels.split(',') if labels else [])
		return 'error', msg[1:]
	return 'error', f'child exited with status {status} and no report'
