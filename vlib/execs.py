"""Executors that own the completion order of submitted tasks (passed as ``executor=`` to gambit)."""

import threading
from concurrent.futures import Executor, Future


class _TrackedFuture(Future):
	"""Future that signals when its result has been collected by the consumer."""

	def __init__(self):
		super().__init__()
		self.collected = threading.Event()

	def result(self, timeout=None):
		try:
			return super().result(timeout)
		finally:
			self.collected.set()

	def exception(self, timeout=None):
		try:
			return super().exception(timeout)
		finally:
			self.collected.set()


class OrderedExecutor(Executor):
	"""Completes the n submitted tasks in the order given by ``perm`` (a permutation of range(n)).

	A helper thread waits until all n tasks have been submitted, then runs task perm[0], sets its
	result, waits until the consumer has collected it (called ``result()``), runs perm[1], ...
	so ``concurrent.futures.as_completed`` yields the futures in exactly this order.
	"""

	def __init__(self, perm, timeout=30.0):
		self.perm = list(perm)
		self.n = len(self.perm)
		self.tasks = []
		self.shutdown_called = False
		self.timeout = timeout
		self._all_submitted = threading.Event()
		self._stop = threading.Event()
		self.completed_order = []
		self.stalled = False
		self.uncontrolled = False
		self.collect_timeout = 0.5
		self._thread = threading.Thread(target=self._run, daemon=True)
		self._thread.start()

	def submit(self, fn, /, *args, **kwargs):
		f = _TrackedFuture()
		self.tasks.append((f, fn, args, kwargs))
		if len(self.tasks) == self.n:
			self._all_submitted.set()
		return f

	def _run(self):
		if not self._all_submitted.wait(self.timeout):
			self.stalled = True
			return
		for idx in self.perm:
			if self._stop.is_set():
				return
			f, fn, args, kwargs = self.tasks[idx]
			if not f.set_running_or_notify_cancel():
				continue
			try:
				r = fn(*args, **kwargs)
			except BaseException as e:  # noqa
				f.set_exception(e)
			else:
				f.set_result(r)
			self.completed_order.append(idx)
			# wait until collected (or stop requested); never deadlock a consumer that collects in
			# another order: after collect_timeout seconds go on regardless (order then uncontrolled)
			waited = 0.0
			while not f.collected.wait(0.05):
				if self._stop.is_set():
					return
				waited += 0.05
				if waited >= self.collect_timeout:
					self.uncontrolled = True
					break

	def shutdown(self, wait=True, *, cancel_futures=False):
		self.shutdown_called = True

	def finish(self):
		"""Harness-side teardown: stop the helper thread."""
		self._stop.set()
		self._all_submitted.set()
		self._thread.join(5.0)
		return not self._thread.is_alive()


class InstantExecutor(Executor):
	"""Every future is already done when submit() returns (all tasks finished before collection)."""

	def __init__(self):
		self.shutdown_called = False
		self.submitted = 0

	def submit(self, fn, /, *args, **kwargs):
		f = Future()
		self.submitted += 1
		f.set_running_or_notify_cancel()
		try:
			r = fn(*args, **kwargs)
		except BaseException as e:  # noqa
			f.set_exception(e)
		else:
			f.set_result(r)
		return f

	def shutdown(self, wait=True, *, cancel_futures=False):
		self.shutdown_called = True

	def finish(self):
		return True
