/* LD_PRELOAD shim for C19: lets a writer process die in the MIDDLE of a write system call.
 *
 * VERIF_CUT_PATH   absolute path of the file whose writes are counted
 * VERIF_CUT_LOG    (dry run) file to which the length of every write to that path is appended, one per line
 * VERIF_CUT_BYTES  (injection) after this many bytes have been written to the path in total, the current write is
 *                  truncated to what is left of the allowance and the process kills itself (SIGKILL): a torn write.
 */
#define _GNU_SOURCE
#include <dlfcn.h>
#include <limits.h>
#include <signal.h>
#include <stdio.h>
#include <stdlib.h>
#include <string.h>
#include <sys/types.h>
#include <unistd.h>

static ssize_t (*real_pwrite64)(int, const void *, size_t, off64_t);
static ssize_t (*real_pwrite)(int, const void *, size_t, off_t);
static ssize_t (*real_write)(int, const void *, size_t);
static long long allowance = -1;
static char target[PATH_MAX];
static FILE *logf;
static int inited;

static void init(void) {
	if (inited) return;
	inited = 1;
	real_pwrite64 = dlsym(RTLD_NEXT, "pwrite64");
	real_pwrite = dlsym(RTLD_NEXT, "pwrite");
	real_write = dlsym(RTLD_NEXT, "write");
	const char *p = getenv("VERIF_CUT_PATH");
	if (p) strncpy(target, p, sizeof target - 1);
	const char *b = getenv("VERIF_CUT_BYTES");
	if (b) allowance = atoll(b);
	const char *l = getenv("VERIF_CUT_LOG");
	if (l) logf = fopen(l, "a");
}

static int is_target(int fd) {
	char link[64], buf[PATH_MAX];
	if (!target[0]) return 0;
	snprintf(link, sizeof link, "/proc/self/fd/%d", fd);
	ssize_t n = readlink(link, buf, sizeof buf - 1);
	if (n < 0) return 0;
	buf[n] = 0;
	return strcmp(buf, target) == 0;
}

/* returns the number of bytes that may be written; -1 = all */
static long long account(int fd, size_t n) {
	if (!is_target(fd)) return -1;
	if (logf) { fprintf(logf, "%zu\n", n); fflush(logf); }
	if (allowance < 0) return -1;
	if ((long long)n > allowance) { long long a = allowance; allowance = 0; return a; }
	allowance -= (long long)n;
	return -1;
}

ssize_t pwrite64(int fd, const void *b, size_t n, off64_t off) {
	init();
	long long a = account(fd, n);
	if (a >= 0) { if (a > 0) real_pwrite64(fd, b, (size_t)a, off); raise(SIGKILL); }
	return real_pwrite64(fd, b, n, off);
}

ssize_t pwrite(int fd, const void *b, size_t n, off_t off) {
	init();
	long long a = account(fd, n);
	if (a >= 0) { if (a > 0) real_pwrite(fd, b, (size_t)a, off); raise(SIGKILL); }
	return real_pwrite(fd, b, n, off);
}

ssize_t write(int fd, const void *b, size_t n) {
	init();
	long long a = account(fd, n);
	if (a >= 0) { if (a > 0) real_write(fd, b, (size_t)a); raise(SIGKILL); }
	return real_write(fd, b, n);
}
