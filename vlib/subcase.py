"""Run one case of a check in a FRESH interpreter under a modified process environment (variables that libraries read once
at load time - OpenMP, locale, time zone - cannot be varied inside a worker). Uses the ordinary replay entry point."""

import json
import os
import re
import subprocess
import sys

from vlib.harness import HarnessError

VERIF = os.path.dirname(os.path.dirname(os.path.abspath(__file__)))
_n = [0]


def run_subcase(prop, case, env_extra, tmpdir, timeout=900):
	"""Returns None if the case passed, (key, message) if it raised a Violation. Harness trouble raises HarnessError."""
	_n[0] += 1
	path = os.path.join(tmpdir, f'subcase-{os.getpid()}-{_n[0]}.json')
	with open(path, 'w', encoding='utf-8') as f:
		json.dump({'property': prop, 'case': case}, f)
	env = dict(os.environ)
	env['PYTHONHASHSEED'] = '0'
	env.pop('VERIF_KEEP_HASHSEED', None)
	for k, v in (env_extra or {}).items():
		if v is None:
			env.pop(k, None)
		else:
			env[k] = str(v)
	try:
		p = subprocess.run([sys.executable, os.path.join(VERIF, 'run.py'), prop, '--replay', path], env=env, cwd=VERIF,
		                   stdout=subprocess.PIPE, stderr=subprocess.PIPE, timeout=timeout)
	finally:
		try:
			os.unlink(path)
		except OSError:
			pass
	out = p.stdout.decode('utf-8', 'replace')
	if p.returncode == 0:
		return None
	if p.returncode == 1:
		m = re.search(r'^violation: key=(\S+) (.*)$', out, re.M)
		if m:
			return m.group(1), m.group(2)
	raise HarnessError(f'sub-process case failed with status {p.returncode} under {env_extra}: {out[-500:]} {p.stderr.decode("utf-8", "replace")[-1500:]}')
