"""Synthetic "worlds": taxonomy forest + reference genomes + queries as plain data, materialised as
FASTA files, a .gdb (SQLite, via gambit's own models and a normal SQLAlchemy session) and a .gs
(via dump_signatures). Expected signatures / distances come from the reference models only."""

import gzip
import os
import random

from hypothesis import strategies as st

from vlib import taxgen
from vlib.refmodel import kmer as RK
from vlib.refmodel import jaccard as RJ
from vlib.refmodel.taxonomy import Forest

ID_ATTRS = ['key', 'genbank_acc', 'refseq_acc', 'ncbi_id']


# -- generation (plain data) ---------------------------------------------------------------------------

@st.composite
def world(draw, max_refs=8, max_queries=5, min_refs=1, min_queries=1, nasty_names=True, thr=None, ties=False):
	k = draw(st.sampled_from([6, 5, 7, 8, 6, 5, 17, 12]))
	prefix = draw(st.sampled_from(['AT', 'AC', 'TA', 'ATG', 'GA', 'CC']))
	taxa = draw(taxgen.forest(max_taxa=10, max_depth=4, names=True, thr=thr if thr is not None else WORLD_THR))
	if not nasty_names:
		for i, t in enumerate(taxa):
			t['name'] = f'Taxon {i}'
	nanc = draw(st.integers(1, 4))
	anc = [{'seed': draw(st.integers(0, 2 ** 20)), 'len': draw(st.sampled_from([400, 1500, 3000] if ties else [1500, 2500, 4000]))} for _ in range(nanc)]
	nref = draw(st.integers(min_refs, max_refs))
	genomes = []
	for j in range(nref):
		dup = None
		if j > 0 and draw(st.integers(0, 3 if ties else 6)) == 0:
			dup = draw(st.integers(0, j - 1))
		genomes.append({
			'anc': draw(st.integers(0, nanc - 1)),
			'mut': draw(st.sampled_from([0.02, 0.0, 0.005, 0.1, 0.3])),
			'seed': draw(st.integers(0, 2 ** 20)),
			'taxon': draw(st.integers(0, len(taxa) - 1)),
			'contigs': draw(st.sampled_from([1, 1, 2, 3])),
			'dup_of': dup,
		})
	nq = draw(st.integers(min_queries, max_queries))
	queries = []
	for j in range(nq):
		kind = draw(st.sampled_from(['mutant', 'copy_of_ref', 'mutant_of_ref', 'unrelated', 'empty', 'mutant']))
		queries.append({
			'kind': kind,
			'anc': draw(st.integers(0, nanc - 1)),
			'ref': draw(st.integers(0, nref - 1)),
			'mut': draw(st.sampled_from([0.01, 0.0, 0.05, 0.2])),
			'seed': draw(st.integers(0, 2 ** 20)),
			'contigs': draw(st.sampled_from([1, 2])),
		})
	return {
		'k': k, 'prefix': prefix, 'taxa': taxa, 'anc': anc, 'genomes': genomes, 'queries': queries,
		'id_attr': draw(st.sampled_from(ID_ATTRS)),
		'sig_perm_seed': draw(st.one_of(st.none(), st.integers(0, 1000))),
		'extra_sigs': draw(st.sampled_from([0, 0, 1, 3])),
		'taxa_id_order': draw(st.sampled_from([None, 'reversed', None])),
	}


WORLD_THR = st.one_of(
	st.just({'kind': 'none'}),
	st.floats(0.2, 1).map(lambda v: {'kind': 'val', 'v': v}),
	st.builds(lambda i, k: {'kind': k, 'i': i}, st.integers(0, 60), st.sampled_from(['dist', 'dist', 'dist_up', 'dist_down', 'dist_up32', 'dist_down32'])),
	st.floats(0, 1).map(lambda v: {'kind': 'val', 'v': v}),
	st.just({'kind': 'val', 'v': 1.0}),
)


# -- sequences -----------------------------------------------------------------------------------------

def _rand_seq(rnd, n):
	return ''.join(rnd.choice('ACGT') for _ in range(n))


def _mutate(rnd, seq, rate):
	if rate <= 0:
		return seq
	out = list(seq)
	for i in range(len(out)):
		if rnd.random() < rate:
			out[i] = rnd.choice('ACGT')
	return ''.join(out)


def _split(rnd, seq, ncontigs):
	if ncontigs <= 1 or len(seq) < ncontigs * 2:
		return [seq]
	cuts = sorted(rnd.sample(range(1, len(seq)), ncontigs - 1))
	parts = [seq[a:b] for a, b in zip([0] + cuts, cuts + [len(seq)])]
	# flip some contigs (biologically equivalent)
	return [RK.ref_revcomp(p.encode()).decode() if rnd.random() < 0.3 else p for p in parts]


def genome_contigs(w, idx, memo=None):
	g = w['genomes'][idx]
	if g.get('dup_of') is not None:
		return genome_contigs(w, g['dup_of'])
	a = w['anc'][g['anc'] % len(w['anc'])]
	base = _rand_seq(random.Random(a['seed']), a['len'])
	rnd = random.Random(g['seed'] * 31 + 7)
	return _split(rnd, _mutate(rnd, base, g['mut']), g['contigs'])


def query_contigs(w, idx):
	q = w['queries'][idx]
	rnd = random.Random(q['seed'] * 17 + 3)
	kind = q['kind']
	if kind == 'copy_of_ref':
		return genome_contigs(w, q['ref'] % len(w['genomes']))
	if kind == 'mutant_of_ref':
		seq = ''.join(genome_contigs(w, q['ref'] % len(w['genomes'])))
		return _split(rnd, _mutate(rnd, seq, q['mut']), q['contigs'])
	if kind == 'unrelated':
		return _split(rnd, _rand_seq(rnd, 2000), q['contigs'])
	if kind == 'empty':
		# no prefix hit at all -> empty signature
		p = w['prefix']
		alphabet = [c for c in 'ACGT' if c != p[0] and c != RK.ref_revcomp(p.encode()).decode()[0]] or ['N']
		return [''.join(rnd.choice(alphabet) for _ in range(300))]
	a = w['anc'][q['anc'] % len(w['anc'])]
	base = _rand_seq(random.Random(a['seed']), a['len'])
	return _split(rnd, _mutate(rnd, base, q['mut']), q['contigs'])


def soft_mask(contigs, seed):
	"""The same sequences with random stretches in lower case (soft-masked assemblies): letter case carries no information."""
	import random
	rnd = random.Random(seed)
	out = []
	for c in contigs:
		chars = list(c)
		pos = 0
		while pos < len(chars):
			run = rnd.randrange(1, 40)
			if rnd.random() < 0.5:
				chars[pos:pos + run] = [ch.lower() for ch in chars[pos:pos + run]]
			pos += run
		out.append(''.join(chars))
	return out


def write_fasta(path, contigs, gz=False, name='seq', softmask=None):
	"""gz: False / True (single member) / int >= 2 (that many gzip members, as bgzip or `cat a.gz b.gz` produce)."""
	if softmask is not None:
		contigs = soft_mask(contigs, softmask)
	txt = ''.join(f'>{name}_{i}\n' + '\n'.join(c[j:j + 80] for j in range(0, len(c), 80)) + '\n' for i, c in enumerate(contigs))
	data = txt.encode('ascii')
	if gz is True or gz == 1:
		data = gzip.compress(data, mtime=0)
	elif gz:
		n = min(int(gz), max(1, len(data) // 2))
		step = -(-len(data) // n)
		data = b''.join(gzip.compress(data[i:i + step], mtime=0) for i in range(0, len(data), step))
	with open(path, 'wb') as f:
		f.write(data)


# -- materialisation -----------------------------------------------------------------------------------

class World:
	"""A world materialised on disk, with everything the oracles need."""

	def __init__(self, w, directory):
		import numpy as np
		self.w = w
		self.dir = directory
		self.k, self.prefix = w['k'], w['prefix']
		pb = self.prefix.encode()
		nref = len(w['genomes'])
		self.ref_contigs = [genome_contigs(w, j) for j in range(nref)]
		self.query_contigs = [query_contigs(w, j) for j in range(len(w['queries']))]
		self.ref_sigs = [RK.ref_signature([c.encode() for c in cs], self.k, pb) for cs in self.ref_contigs]
		self.query_sigs = [RK.ref_signature([c.encode() for c in cs], self.k, pb) for cs in self.query_contigs]
		self.dtype = RK.ref_dtype_str(self.k)
		# expected distance bits [query][ref]
		self.dbits = [[RJ.ref_dist_bits(q, r) for r in self.ref_sigs] for q in self.query_sigs]
		all_d = [RJ.bits_to_float(b) for row in self.dbits for b in row]
		self.taxa = taxgen.resolve_thresholds(w['taxa'], all_d)
		self.forest = Forest(self.taxa)
		# ids
		id_attr = w['id_attr']
		self.id_attr = id_attr
		self.genome_fields = []
		for j in range(nref):
			self.genome_fields.append({
				'key': f'world/g{j}', 'description': self.genome_desc(j), 'ncbi_db': 'assembly', 'ncbi_id': 1000 + j * 7,
				'genbank_acc': f'GCA_{j:09d}.1', 'refseq_acc': f'GCF_{j:09d}.1', 'organism': f'Organism {j}',
			})
		# signature file order
		order = list(range(nref))
		if w.get('sig_perm_seed') is not None:
			random.Random(w['sig_perm_seed']).shuffle(order)
		entries = [('ref', j) for j in order]
		rnd = random.Random(12345)
		for e in range(w.get('extra_sigs', 0)):
			pos = rnd.randrange(len(entries) + 1)
			entries.insert(pos, ('extra', e))
		self.sig_entries = entries
		self.ref_order = [j for kind, j in entries if kind == 'ref']   # db.genomes order == signature file order
		os.makedirs(directory, exist_ok=True)
		self.gdb_path = os.path.join(directory, 'world.gdb')
		self.gs_path = os.path.join(directory, 'world.gs')
		self._write_gdb()
		self._write_gs(np)

	def genome_desc(self, j):
		names = taxgen.NASTY_NAMES
		return f'{names[j % len(names)]} strain {j}'

	def sig_id(self, j):
		return self.genome_fields[j][self.id_attr]

	def _write_gdb(self, path=None, decoy=None):
		"""decoy: None | 'decoy_first' | 'decoy_last' - the file additionally holds a SECOND genome set ('verif/decoy') that annotates
		the same Genome rows with another taxonomy (another version of the database kept in one file, which the schema allows);
		its rows get the lower or the higher primary keys."""
		from sqlalchemy import create_engine
		from sqlalchemy.orm import Session
		from gambit.db.models import Base, ReferenceGenomeSet, Taxon, Genome, AnnotatedGenome
		engine = create_engine(f'sqlite:///{path or self.gdb_path}')
		Base.metadata.create_all(engine)
		with Session(engine) as s:
			gobjs = [Genome(key=f['key'], description=f['description'], ncbi_db=f['ncbi_db'], ncbi_id=f['ncbi_id'],
			                genbank_acc=f['genbank_acc'], refseq_acc=f['refseq_acc']) for f in self.genome_fields]

			def real_set():
				gset = ReferenceGenomeSet(key='verif/world', version='1.0', name='verif world', description='synthetic, "quoted", ünï')
				s.add(gset)
				tobjs = [None] * len(self.taxa)
				rev = self.w.get('taxa_id_order') == 'reversed'
				# 'reversed': a curated database in which higher taxa were inserted AFTER their children (a genus added above existing
				# species): rows are written leaf-first, so every parent has a LARGER primary key than its children
				for i in (reversed(range(len(self.taxa))) if rev else range(len(self.taxa))):
					t = self.taxa[i]
					tobjs[i] = Taxon(key=f'world/t{i}', name=t.get('name') or f'taxon{i}', rank=t.get('rank'), distance_threshold=t['thr'],
					                 report=bool(t['report']), ncbi_id=t.get('ncbi_id'), genome_set=gset)
					if rev:
						s.flush()
				for i, t in enumerate(self.taxa):
					if t['parent'] is not None:
						tobjs[i].parent = tobjs[t['parent']]
				s.add_all(tobjs)
				for j, f in enumerate(self.genome_fields):
					s.add(AnnotatedGenome(genome=gobjs[j], genome_set=gset, taxon=tobjs[self.w['genomes'][j]['taxon']], organism=f['organism']))
				s.flush()

			def decoy_set():
				gset = ReferenceGenomeSet(key='verif/decoy', version='0.9', name='another version', description='same genomes, other taxonomy')
				s.add(gset)
				root = Taxon(key='decoy/root', name='Decoy root', rank='genus', distance_threshold=1.0, report=True, genome_set=gset)
				leaves = [Taxon(key=f'decoy/leaf{j}', name=f'Decoy species {j}', rank='species', distance_threshold=1.0, report=True, genome_set=gset, parent=root)
				          for j in range(len(gobjs))]
				s.add_all([root] + leaves)
				for j, f in enumerate(self.genome_fields):
					s.add(AnnotatedGenome(genome=gobjs[j], genome_set=gset, taxon=leaves[j], organism='decoy organism'))
				s.flush()
			if decoy == 'decoy_first':
				decoy_set()
			real_set()
			if decoy == 'decoy_last':
				decoy_set()
			# a genome outside the genome set
			s.add(Genome(key='world/outside', description='not in the set', genbank_acc='GCA_999999999.1'))
			s.commit()
		engine.dispose()

	def _write_gs(self, np):
		from gambit.kmers import KmerSpec
		from gambit.sigs.base import SignatureArray, AnnotatedSignatures, SignaturesMeta, dump_signatures
		spec = KmerSpec(self.k, self.prefix)
		arrays = []
		ids = []
		rnd = random.Random(999)
		for kind, j in self.sig_entries:
			if kind == 'ref':
				arrays.append(np.array(self.ref_sigs[j], dtype=self.dtype))
				ids.append(self.sig_id(j))
			else:
				n = 4 ** self.k
				arrays.append(np.array(sorted({rnd.randrange(n) for _ in range(min(30, n))}), dtype=self.dtype))
				ids.append(900000 + j if self.id_attr == 'ncbi_id' else f'extra/{j}')
		if self.id_attr == 'ncbi_id':
			ids = np.array(ids, dtype='i8')
		meta = SignaturesMeta(id='verif/world-sigs', name='world signatures', version='1.0', id_attr=self.id_attr,
		                      description='synthetic', extra={'author': 'verif'})
		dump_signatures(self.gs_path, AnnotatedSignatures(SignatureArray(arrays, spec, dtype=np.dtype(self.dtype)), ids, meta))

	# -- query files ---------------------------------------------------------------------------------
	def write_query(self, qi, path, gz=False):
		write_fasta(path, self.query_contigs[qi], gz=gz, name=f'q{qi}')

	def write_ref(self, j, path, gz=False):
		write_fasta(path, self.ref_contigs[j], gz=gz, name=f'r{j}')

	# -- expected results ----------------------------------------------------------------------------
	def dist(self, qi, j):
		return RJ.bits_to_float(self.dbits[qi][j])

	def expected_nonstrict(self, qi):
		"""Model of the non-strict result for query qi, in terms of genome / taxon indices."""
		row = [self.dist(qi, j) for j in range(len(self.ref_sigs))]
		dmin = min(row)
		closest_candidates = [j for j in range(len(row)) if row[j] == dmin]
		# reference order == signature file order; the first minimum in that order
		first = next(j for j in self.ref_order if row[j] == dmin)
		return {'row': row, 'dmin': dmin, 'closest_candidates': closest_candidates, 'first_min': first}

	def closest_list(self, qi, n):
		row = [self.dist(qi, j) for j in range(len(self.ref_sigs))]
		pos = {j: p for p, j in enumerate(self.ref_order)}
		return sorted(range(len(row)), key=lambda j: (row[j], pos[j]))[:n]

	def load_db(self, multi=None):
		"""multi: None (the database directory, through load_from_dir) or 'decoy_first' / 'decoy_last': the genome set 'verif/world'
		of a file that holds a second genome set over the same genomes, through the library constructor."""
		from gambit.db.refdb import ReferenceDatabase
		if not multi:
			return ReferenceDatabase.load_from_dir(self.dir)
		from gambit.db import file_sessionmaker
		from gambit.db.models import ReferenceGenomeSet
		from gambit.sigs.base import load_signatures
		path = os.path.join(self.dir + '.multi', multi + '.gdb')
		if not os.path.exists(path):
			os.makedirs(os.path.dirname(path), exist_ok=True)
			self._write_gdb(path, decoy=multi)
		session = file_sessionmaker(path)()
		gset = session.query(ReferenceGenomeSet).filter_by(key='verif/world').one()
		return ReferenceDatabase(gset, load_signatures(self.gs_path))


def get_world(ctx, w, tag='world'):
	"""Materialise (cached per worker by content hash)."""
	from vlib.harness import case_hash
	key = (tag, case_hash(w))
	if key in ctx.cache:
		return ctx.cache[key]
	# bound the cache
	stale = [k for k in ctx.cache if isinstance(k, tuple) and k and k[0] == tag]
	if len(stale) > 20:
		for k in stale[:10]:
			ctx.cache.pop(k, None)
	d = ctx.fresh_dir('world')
	W = World(w, d)
	ctx.cache[key] = W
	return W
