"""A sequence longer than any plausible internal block with prefix occurrences planted around chosen offsets (shared by C01, C06)."""

from vlib.refmodel import kmer as R

SEAMS = [2 ** e for e in range(12, 21)] + [10 ** 4, 10 ** 5, 10 ** 6, 3 * 2 ** 18, 2 ** 20 + 2 ** 19]


def build(np, case):
	"""case: k, prefix (contains A or T), length, seed, hits [[offset, delta, reverse, kmer seed], ...].
	Returns (sequence bytes, expected signature as sorted list, windows). The filler is C/G only, so the prefix can only occur
	where it was planted; the expectation is the definitional signature of small windows around the planted sites."""
	k, p = case['k'], case['prefix']
	pb = p.encode()
	tl = len(pb) + k
	L = case['length']
	rng = np.random.default_rng(case['seed'])
	seq = bytearray(np.where(rng.integers(0, 2, size=L, dtype=np.uint8) == 0, 67, 71).astype(np.uint8).tobytes())   # C / G
	windows = []
	last_end = 0
	for seam, d, rev, kseed in sorted(case['hits']):
		pos = seam + d
		if pos < last_end + 2 * tl or pos + tl > L - 2 * tl:
			continue
		kmer = bytes(b'ACGT'[v] for v in np.random.default_rng(kseed).integers(0, 4, size=k))
		site = pb + kmer
		seq[pos:pos + tl] = R.ref_revcomp(site) if rev else site
		windows.append((pos - 2 * tl, pos + 3 * tl))
		last_end = pos + tl
	seq = bytes(seq)
	exp = set()
	for a, b in windows:
		exp.update(R.ref_signature([seq[a:b]], k, pb))
	return seq, sorted(exp), windows
