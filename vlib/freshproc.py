"""Run a list of library calls in a FRESH interpreter (no earlier call in the process) and return their results.

usage (internal): python -m vlib.freshproc  < JSON list of [function name, latin-1 argument, extra]  > JSON list of results
"""
import json
import os
import subprocess
import sys


def run_calls(calls, timeout=120, flags=()):
	"""calls: list of [name, arg(str, latin-1), k or None]. Returns list of ['ok', value] / ['err', exception class name]."""
	env = dict(os.environ)
	src = os.environ.get('VERIF_GAMBIT_SRC')
	if src:
		env['PYTHONPATH'] = src + os.pathsep + env.get('PYTHONPATH', '')
	here = os.path.dirname(os.path.dirname(os.path.abspath(__file__)))
	p = subprocess.run([sys.executable] + list(flags) + [os.path.join(here, 'vlib', 'freshproc.py')], input=json.dumps(calls).encode(), env=env,
	                   stdout=subprocess.PIPE, stderr=subprocess.PIPE, timeout=timeout)
	if p.returncode != 0:
		raise RuntimeError(f'fresh process failed: {p.stderr.decode("utf-8", "replace")[-800:]}')
	return json.loads(p.stdout.decode())


def _main():
	calls = json.load(sys.stdin)
	out = []
	for name, arg, extra in calls:
		try:
			if name == 'kmer_to_index':
				from gambit.kmers import kmer_to_index
				out.append(['ok', int(kmer_to_index(arg.encode('latin-1')))])
			elif name == 'kmer_to_index_rc':
				from gambit.kmers import kmer_to_index_rc
				out.append(['ok', int(kmer_to_index_rc(arg.encode('latin-1')))])
			elif name == 'index_to_kmer':
				from gambit.kmers import index_to_kmer
				out.append(['ok', index_to_kmer(int(arg), extra).decode('latin-1')])
			elif name == 'revcomp':
				from gambit.seq import revcomp
				out.append(['ok', revcomp(arg.encode('latin-1')).decode('latin-1')])
			elif name == 'calc_signature':
				from gambit.kmers import KmerSpec
				from gambit.sigs.calc import calc_signature
				k, prefix = extra
				out.append(['ok', [int(v) for v in calc_signature(KmerSpec(k, prefix), arg.encode('latin-1'))]])
			else:
				out.append(['err', 'unknown call'])
		except Exception as e:
			out.append(['err', type(e).__name__])
	json.dump(out, sys.stdout)


if __name__ == '__main__':
	_main()
