"""Shared library for the gambit verification checks (property-based testing / fuzzing)."""
