"""Own Newick parser (standard quoting: 'it''s') and UPGMA validity predicate."""


class NewickError(Exception):
	pass


class Node:
	__slots__ = ('children', 'name', 'length', 'leaves', 'depth', 'nbranches', 'parent')

	def __init__(self):
		self.children = []
		self.name = None
		self.length = None
		self.leaves = None
		self.depth = 0.0
		self.nbranches = 0
		self.parent = None


def parse(text):
	"""Parse one Newick tree. Returns the root Node."""
	s = text.strip()
	if not s.endswith(';'):
		raise NewickError('tree does not end with ";"')
	pos = 0
	n = len(s)

	def skip_ws():
		nonlocal pos
		while pos < n and s[pos] in ' \t\r\n':
			pos += 1

	def parse_label():
		nonlocal pos
		skip_ws()
		if pos < n and s[pos] == "'":
			pos += 1
			out = []
			while True:
				if pos >= n:
					raise NewickError('unterminated quoted label')
				c = s[pos]
				if c == "'":
					if pos + 1 < n and s[pos + 1] == "'":
						out.append("'")
						pos += 2
						continue
					pos += 1
					break
				out.append(c)
				pos += 1
			return ''.join(out)
		start = pos
		while pos < n and s[pos] not in "()[]':;, \t\r\n":
			pos += 1
		return s[start:pos] if pos > start else None

	def parse_length():
		nonlocal pos
		skip_ws()
		if pos < n and s[pos] == ':':
			pos += 1
			skip_ws()
			start = pos
			while pos < n and s[pos] in '+-0123456789.eE':
				pos += 1
			try:
				return float(s[start:pos])
			except ValueError:
				raise NewickError(f'bad branch length {s[start:pos]!r}')
		return None

	def parse_node():
		nonlocal pos
		skip_ws()
		node = Node()
		if pos < n and s[pos] == '(':
			pos += 1
			while True:
				child = parse_node()
				child.parent = node
				node.children.append(child)
				skip_ws()
				if pos < n and s[pos] == ',':
					pos += 1
					continue
				if pos < n and s[pos] == ')':
					pos += 1
					break
				raise NewickError(f'expected "," or ")" at offset {pos}')
		node.name = parse_label()
		node.length = parse_length()
		return node

	root = parse_node()
	skip_ws()
	if pos >= n or s[pos] != ';':
		raise NewickError(f'trailing text at offset {pos}: {s[pos:pos + 20]!r}')
	if s[pos + 1:].strip():
		raise NewickError('text after ";"')
	return root


def iter_nodes(root):
	stack = [root]
	while stack:
		x = stack.pop()
		yield x
		stack.extend(x.children)


def annotate(root):
	"""Set depth (distance from root), nbranches (edges from root) and leaves (list of leaf nodes) on every node."""
	root.depth = 0.0
	root.nbranches = 0
	order = []
	stack = [root]
	while stack:
		x = stack.pop()
		order.append(x)
		for c in x.children:
			c.depth = x.depth + (c.length or 0.0)
			c.nbranches = x.nbranches + 1
			stack.append(c)
	for x in reversed(order):
		if not x.children:
			x.leaves = [x]
		else:
			x.leaves = [l for c in x.children for l in c.leaves]
	return order


def upgma(D):
	"""Plain O(n^3) average linkage on a full distance matrix (list of lists). Returns (merges, unique) where merges is a
	list of (members_a, members_b, height) and unique tells whether every step had a unique minimum (by a margin)."""
	n = len(D)
	clusters = {i: [i] for i in range(n)}
	dist = {(i, j): D[i][j] for i in range(n) for j in range(i + 1, n)}
	merges = []
	unique = True
	nxt = n
	while len(clusters) > 1:
		items = sorted(dist.items(), key=lambda kv: kv[1])
		(a, b), h = items[0]
		if len(items) > 1 and items[1][1] - h <= 1e-4:
			unique = False
		merges.append((list(clusters[a]), list(clusters[b]), h))
		new = clusters[a] + clusters[b]
		na, nb = len(clusters[a]), len(clusters[b])
		for c in list(clusters):
			if c in (a, b):
				continue
			dac = dist.pop((min(a, c), max(a, c)))
			dbc = dist.pop((min(b, c), max(b, c)))
			dist[(c, nxt)] = (na * dac + nb * dbc) / (na + nb)
		dist.pop((a, b))
		del clusters[a], clusters[b]
		clusters[nxt] = new
		nxt += 1
	return merges, unique
