"""R-TAX: dict/list model of a taxonomy forest and of the classification rules worded in C03/C10."""


class Forest:
	"""taxa: list of dicts with keys parent (index or None), thr (float or None), report (bool)."""

	def __init__(self, taxa):
		self.taxa = taxa
		self.n = len(taxa)

	def parent(self, t):
		return self.taxa[t]['parent']

	def thr(self, t):
		return self.taxa[t]['thr']

	def lineage(self, t):
		"""t first, then ancestors up to the root."""
		out = []
		seen = set()
		while t is not None:
			assert t not in seen
			seen.add(t)
			out.append(t)
			t = self.parent(t)
		return out

	def is_ancestor_or_self(self, a, t):
		return a in self.lineage(t)

	def match(self, t, d):
		"""Most specific taxon in lineage(t) carrying a threshold >= d (exact comparison in binary64)."""
		d = float(d)
		for x in self.lineage(t):
			th = self.thr(x)
			if th is not None and d <= th:
				return x
		return None

	def next_taxon(self, t, d):
		"""Nearest threshold-bearing taxon strictly below match(t, d) in lineage(t); if nothing is
		predicted, the topmost threshold-bearing taxon of the lineage; None if there is none."""
		lin = self.lineage(t)
		m = self.match(t, d)
		bearing = [x for x in lin if self.thr(x) is not None]
		if m is None:
			return bearing[-1] if bearing else None
		below = [x for x in lin[:lin.index(m)] if self.thr(x) is not None]
		return below[-1] if below else None

	def reportable(self, t):
		if t is None:
			return None
		for x in self.lineage(t):
			if self.taxa[x]['report']:
				return x
		return None

	def comparable(self, a, b):
		return a == b or self.is_ancestor_or_self(a, b) or self.is_ancestor_or_self(b, a)

	def consensus(self, matched):
		"""matched: set of taxa. Returns (consensus or None, others (strictly below consensus), ok).

		Empty -> (None, {}, True). Chain -> deepest. Otherwise LCA of the minimal (most specific)
		elements; no common ancestor -> (None, all, False).
		"""
		M = set(matched)
		if not M:
			return None, set(), True
		# minimal elements: those with no other element strictly below them
		minimal = {t for t in M if not any(o != t and self.is_ancestor_or_self(t, o) for o in M)}
		if len(minimal) == 1:
			c = next(iter(minimal))
			return c, set(), True
		# LCA of minimal elements
		lins = [self.lineage(t) for t in minimal]
		common = set(lins[0])
		for l in lins[1:]:
			common &= set(l)
		if not common:
			return None, set(M), False
		lca = next(x for x in lins[0] if x in common)
		others = {t for t in M if t != lca and self.is_ancestor_or_self(lca, t)}
		return lca, others, True
