"""R-KMER: definitional k-mer index / reverse complement / signature (shares no arithmetic with gambit)."""

NUC = {ord('A'): 0, ord('C'): 1, ord('G'): 2, ord('T'): 3,
       ord('a'): 0, ord('c'): 1, ord('g'): 2, ord('t'): 3}
LETTERS = b'ACGT'

# 256-entry complement table: A<->T, C<->G in both cases, everything else unchanged
COMP = list(range(256))
for _a, _b in ((b'A', b'T'), (b'C', b'G'), (b'a', b't'), (b'c', b'g')):
	COMP[_a[0]] = _b[0]
	COMP[_b[0]] = _a[0]
COMP = bytes(COMP)


def ref_index(kmer: bytes):
	"""Base-4 positional code, first base most significant; None if any byte is not ACGTacgt."""
	idx = 0
	for b in kmer:
		d = NUC.get(b)
		if d is None:
			return None
		idx = idx * 4 + d
	return idx


def ref_kmer(index: int, k: int) -> bytes:
	out = []
	for i in range(k):
		out.append(LETTERS[(index // (4 ** (k - 1 - i))) % 4])
	return bytes(out)


def ref_revcomp(s: bytes) -> bytes:
	return bytes(COMP[b] for b in reversed(s))


def fold(s: bytes) -> bytes:
	"""Upper-case ASCII letters only."""
	return bytes(b - 32 if 97 <= b <= 122 else b for b in s)


def strand_kmers(s: bytes, k: int, prefix: bytes):
	"""Set of indices of valid k-mers directly following an occurrence of prefix in s (forward only)."""
	p = len(prefix)
	out = set()
	n = len(s)
	f = fold(s)
	i = 0
	while i + p + k <= n:
		if f[i:i + p] == prefix:
			idx = ref_index(s[i + p:i + p + k])
			if idx is not None:
				out.add(idx)
		i += 1
	return out


def ref_signature(seqs, k: int, prefix: bytes):
	"""Sorted list of k-mer indices over both strands of all sequences."""
	out = set()
	for s in seqs:
		s = bytes(s)
		out |= strand_kmers(s, k, prefix)
		out |= strand_kmers(ref_revcomp(s), k, prefix)
	return sorted(out)


def ref_dtype_str(k: int) -> str:
	if k <= 4:
		return 'uint8'
	if k <= 8:
		return 'uint16'
	if k <= 16:
		return 'uint32'
	return 'uint64'


def analyse(seqs, k, prefix):
	"""Class labels describing what a case exercises (used for generator-health histograms)."""
	classes = set()
	p = len(prefix)
	rcp = ref_revcomp(prefix)
	if rcp == prefix:
		classes.add('palindromic_prefix')
	for s in seqs:
		s = bytes(s)
		n = len(s)
		f = fold(s)
		if any(97 <= b <= 122 for b in s):
			classes.add('lowercase')
		if any(b >= 128 for b in s):
			classes.add('nonascii_byte')
		fw = [i for i in range(n - p + 1) if f[i:i + p] == prefix]
		rv = [i for i in range(n - p + 1) if f[i:i + p] == rcp]
		for hits, fwd in ((fw, True), (rv, False)):
			for a, b in zip(hits, hits[1:]):
				if b - a < p + k:
					classes.add('overlap')
				if b - a < p:
					classes.add('self_overlap_prefix')
		for i in fw:
			if i + p + k > n:
				classes.add('dropped_past_end')
			else:
				if ref_index(s[i + p:i + p + k]) is None:
					classes.add('dropped_invalid')
				if i == 0:
					classes.add('flush_start')
				if i + p + k == n:
					classes.add('flush_end_fwd')
		for i in rv:
			# reverse hit: k-mer lies before the rc-prefix occurrence
			if i - k < 0:
				classes.add('dropped_past_end')
			else:
				classes.add('reverse_hit')
				if ref_index(s[i - k:i]) is None:
					classes.add('dropped_invalid')
				if i - k == 0:
					classes.add('flush_start_rev')
				if i + p == n:
					classes.add('flush_end')
		if n < p + k:
			classes.add('shorter_than_total')
		if n == p + k:
			classes.add('exact_total_len')
		if n == 0:
			classes.add('empty_seq')
	if k > 16:
		classes.add('k>16')
	return classes


SPEC_SPELLINGS = 8


def spell_spec(KmerSpec, k, prefix, how):
	"""The same k-mer specification reached in different legal ways (prefix case / type, k as a NumPy integer, copies)."""
	how = how % SPEC_SPELLINGS
	if how == 0:
		return KmerSpec(k, prefix.upper())
	if how == 1:
		return KmerSpec(k, prefix.lower())
	if how == 2:
		return KmerSpec(k, ''.join(c.lower() if i % 2 else c.upper() for i, c in enumerate(prefix)))
	if how == 3:
		return KmerSpec(k, prefix.upper().encode())
	if how == 4:
		return KmerSpec(k, bytearray(prefix.lower().encode()))
	if how == 5:
		import pickle
		return pickle.loads(pickle.dumps(KmerSpec(k, prefix.lower())))
	if how == 6:
		import numpy as np
		return KmerSpec(np.int64(k), prefix)
	from Bio.Seq import Seq
	return KmerSpec(k, Seq(prefix.lower()))
