"""R-JAC: exact Jaccard distance, rounded once to binary32 using integer arithmetic only."""

import struct


def round32_bits(num: int, den: int) -> int:
	"""Bit pattern (uint32) of num/den (0 <= num <= den, den > 0) rounded half-even to binary32."""
	if num == 0:
		return 0
	if num == den:
		return 0x3F800000
	assert 0 < num < den
	# find e such that 2^23 <= num * 2^e / den < 2^24
	e = 0
	# num/den < 1 so e >= 24 - something; scale up
	while (num << e) < (den << 23):
		e += 1
	# now num*2^e/den >= 2^23; ensure < 2^24
	while (num << e) >= (den << 24):
		e -= 1
	q, r = divmod(num << e, den)
	# round half even
	if 2 * r > den or (2 * r == den and (q & 1)):
		q += 1
	if q == 1 << 24:
		q >>= 1
		e -= 1
	# value = q * 2^-e, q in [2^23, 2^24)
	exp = 127 + 23 - e
	assert 0 < exp < 255, (num, den, e)  # normal range (den < 2^100 or so is fine)
	return (exp << 23) | (q - (1 << 23))


def bits_to_float(bits: int) -> float:
	return struct.unpack('<f', struct.pack('<I', bits))[0]


def float_to_bits(x) -> int:
	return struct.unpack('<I', struct.pack('<f', float(x)))[0]


def jaccarddist_parts(a, b):
	"""(|A xor B|, |A or B|) for iterables of ints."""
	sa, sb = set(a), set(b)
	return len(sa ^ sb), len(sa | sb)


def ref_dist_bits(a, b) -> int:
	n, u = jaccarddist_parts(a, b)
	if u == 0:
		return 0
	return round32_bits(n, u)


def ref_dist(a, b) -> float:
	"""Exact distance rounded once to binary32, returned as a Python float (exactly that binary32 value)."""
	return bits_to_float(ref_dist_bits(a, b))
