"""Rebuild gambit's native extensions from the working tree (as far as the sandbox allows).

gambit is an editable install: Python sources are always the working tree. The three Cython
modules are compiled extension modules; Cython itself is not installed anywhere in the sandbox,
so a changed ``.pyx`` cannot be re-translated. What is done here, at the start of every check and
under a file lock: for each of kmers/metric/threads, if the generated ``.c`` is newer than the
``.so`` (or the ``.so`` is missing) it is recompiled in place with gcc. If a ``.pyx``/``.pxd`` is
newer than its ``.c`` a NOTE is printed and recorded as an assumption in the evidence.
"""

import fcntl
import os
import subprocess
import sys
import sysconfig

MODULES = ('kmers', 'metric', 'threads')


def src_dir() -> str:
	"""Directory containing the ``gambit`` package that the checks test."""
	return os.environ.get('VERIF_GAMBIT_SRC') or '/repo/src'


def ensure_built(verbose: bool = True) -> list:
	"""Recompile stale extension modules. Returns list of notes (assumptions)."""
	notes = []
	cydir = os.path.join(src_dir(), 'gambit', '_cython')
	suffix = sysconfig.get_config_var('EXT_SUFFIX')
	include = sysconfig.get_paths()['include']
	import hashlib, tempfile
	lockpath = os.path.join(tempfile.gettempdir(), 'verif-build-%s.lock' % hashlib.sha1(cydir.encode()).hexdigest()[:12])
	try:
		lockf = open(lockpath, 'w')
	except OSError:
		lockf = None
	if lockf is not None:
		fcntl.flock(lockf, fcntl.LOCK_EX)
	try:
		for m in MODULES:
			c = os.path.join(cydir, m + '.c')
			so = os.path.join(cydir, m + suffix)
			pyx = os.path.join(cydir, m + '.pyx')
			if not os.path.exists(c):
				if not os.path.exists(so):
					raise RuntimeError(f'neither {c} nor {so} exists; cannot build (Cython unavailable)')
				notes.append(f'{m}.c missing; using existing {os.path.basename(so)}')
				continue
			deps = [pyx] + [os.path.join(cydir, f) for f in os.listdir(cydir) if f.endswith('.pxd')]
			for d in deps:
				if os.path.exists(d) and os.path.getmtime(d) > os.path.getmtime(c) + 1:
					note = (f'{os.path.basename(d)} newer than {m}.c; Cython unavailable in sandbox, '
					        f'testing the existing C translation')
					if note not in notes:
						notes.append(note)
			if os.path.exists(so) and os.path.getmtime(so) >= os.path.getmtime(c):
				continue
			if verbose:
				print(f'[build] compiling {m}.c -> {os.path.basename(so)}', file=sys.stderr, flush=True)
			tmp = so + f'.tmp{os.getpid()}'
			cmd = ['gcc', '-O2', '-fPIC', '-shared', '-fopenmp', '-Wno-sign-compare', '-w',
			       '-I' + include, c, '-o', tmp]
			subprocess.run(cmd, check=True)
			os.replace(tmp, so)
	finally:
		if lockf is not None:
			fcntl.flock(lockf, fcntl.LOCK_UN)
			lockf.close()
	for n in notes:
		if verbose:
			print('NOTE: ' + n, file=sys.stderr, flush=True)
	return notes


if __name__ == '__main__':
	ensure_built()
