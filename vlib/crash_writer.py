"""Stand-alone writer used by the syscall-level crash injection of C19 (run under strace).

usage: python -m vlib.crash_writer PAYLOAD.json OUT.gs
"""
import json
import os
import sys

sys.path.insert(0, os.path.dirname(os.path.dirname(os.path.abspath(__file__))))
if os.environ.get('VERIF_GAMBIT_SRC'):
	sys.path.insert(0, os.environ['VERIF_GAMBIT_SRC'])


def main():
	import numpy as np
	from vlib import sigpayload as P
	from gambit.sigs.base import dump_signatures
	p = json.load(open(sys.argv[1]))
	obj, spec, arrays, exp_ids, exp_meta = P.build(np, p)
	kw = {}
	if p['compression'] is not None:
		kw['compression'] = p['compression']
		if p['compression_opts'] is not None:
			kw['compression_opts'] = p['compression_opts']
	dump_signatures(sys.argv[2], obj, **kw)


if __name__ == '__main__':
	main()
