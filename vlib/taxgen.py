"""Generators and builders for taxonomy forests as plain data + transient gambit ORM objects."""

import struct

from hypothesis import strategies as st

NASTY_NAMES = ['Escherichia coli', 'a,b', '"quoted"', "it's", 'line\nbreak', 'crlf\r\nname', 'Ünï cödé', '日本', ' lead', 'trail ',
               'semi;colon', 'tab\tname', 'x' * 40, '=1+1', '-', 'None', 'sp. nov.', 'a\\b', '[bracket]', "s'", '(paren)', 'c:d']


def f32(x):
	return struct.unpack('<f', struct.pack('<f', float(x)))[0]


def next32(x, up):
	b = struct.unpack('<I', struct.pack('<f', float(x)))[0]
	if up:
		b = b + 1 if x >= 0 else b - 1
	else:
		if b == 0:
			return -1.401298464324817e-45
		b = b - 1
	return struct.unpack('<f', struct.pack('<I', b))[0]


def next64(x, up):
	import math
	return math.nextafter(x, math.inf if up else -math.inf)


DIST = st.one_of(
	st.tuples(st.integers(0, 12), st.integers(1, 12)).map(lambda t: f32(min(t) / max(t[1], t[0], 1))),
	st.floats(0, 1, width=32),
	st.sampled_from([0.0, 1.0, 0.5, f32(1 / 3), f32(2 / 3), f32(0.1)]),
)

THR = st.one_of(
	st.just({'kind': 'none'}),
	st.floats(0, 1).map(lambda v: {'kind': 'val', 'v': v}),
	st.builds(lambda i, k: {'kind': k, 'i': i}, st.integers(0, 30),
	          st.sampled_from(['dist', 'dist', 'dist_up', 'dist_down', 'dist_up32', 'dist_down32'])),
	st.sampled_from([0.0, 1.0, 0.5, -0.25, 1.5, 1e-300, 2.0 ** -149]).map(lambda v: {'kind': 'val', 'v': v}),
)


@st.composite
def forest(draw, max_taxa=14, max_depth=5, thr=THR, names=False):
	n = draw(st.integers(1, max_taxa))
	shape = draw(st.sampled_from(['random', 'random', 'chain', 'three_level', 'multi_root']))
	taxa = []
	depth = []
	for i in range(n):
		if i == 0:
			parent = None
		elif shape == 'chain':
			parent = i - 1 if depth[i - 1] < max_depth else None
		elif shape == 'three_level':
			# genus -> species -> subspecies pattern
			parent = 0 if i <= max(1, n // 2) else draw(st.integers(1, max(1, n // 2)))
		else:
			choices = [j for j in range(i) if depth[j] < max_depth]
			p = draw(st.integers(-1 if shape != 'multi_root' else -2, len(choices) - 1))
			parent = None if (p < 0 or not choices) else choices[p]
		depth.append(0 if parent is None else depth[parent] + 1)
		t = {'parent': parent, 'thr': draw(thr), 'report': draw(st.sampled_from([True, True, False]))}
		if names:
			t['name'] = draw(st.one_of(st.sampled_from(NASTY_NAMES), st.text(alphabet='abcdefgh XYZ', min_size=1, max_size=12)))
			t['rank'] = draw(st.sampled_from([None, 'species', 'genus', 'subspecies', 'r,k']))
			t['ncbi_id'] = draw(st.one_of(st.none(), st.integers(1, 10 ** 7)))
		taxa.append(t)
	return taxa


def resolve_thresholds(taxa, dists):
	"""Turn threshold specs into floats (or None) given the list of occurring distances."""
	out = []
	for t in taxa:
		spec = t['thr']
		if spec is None or isinstance(spec, (int, float)):
			thr = spec
		else:
			k = spec['kind']
			if k == 'none':
				thr = None
			elif k == 'val':
				thr = float(spec['v'])
			else:
				if not dists:
					thr = 0.5
				else:
					d = float(dists[spec['i'] % len(dists)])
					thr = {'dist': d, 'dist_up': next64(d, True), 'dist_down': next64(d, False),
					       'dist_up32': next32(d, True), 'dist_down32': next32(d, False)}[k]
		nt = dict(t)
		nt['thr'] = thr
		out.append(nt)
	return out


def build_orm(taxa, genome_taxa, names=None):
	"""Transient (session-less) Taxon / AnnotatedGenome objects. Returns (taxon objects, genome objects)."""
	from gambit.db.models import Taxon, AnnotatedGenome, Genome
	tobjs = []
	for i, t in enumerate(taxa):
		name = t.get('name') if t.get('name') is not None else f'taxon{i}'
		obj = Taxon(id=i + 1, key=f't{i}', name=name, rank=t.get('rank'), distance_threshold=t['thr'], report=bool(t['report']),
		            ncbi_id=t.get('ncbi_id'))
		tobjs.append(obj)
	for i, t in enumerate(taxa):
		if t['parent'] is not None:
			tobjs[i].parent = tobjs[t['parent']]
	gobjs = []
	for j, ti in enumerate(genome_taxa):
		g = Genome(id=j + 1, key=f'g{j}', description=f'genome {j}')
		ag = AnnotatedGenome(genome=g, taxon=tobjs[ti], organism=f'org{j}')
		gobjs.append(ag)
	return tobjs, gobjs
