"""Signature-collection payloads as plain data (shared by C12 and C19): strategy, builder, comparer."""

import random

from hypothesis import strategies as st

# Text without NUL and surrogates (HDF5 variable-length strings cannot store NUL; h5py rejects both)
TEXT = st.text(alphabet=st.characters(blacklist_characters='\x00', blacklist_categories=('Cs',)), max_size=12)
NASTY = st.sampled_from(['u\u0308ber', 'A\u030a', '\u212b', '\uf900', '\u1100\u1161', 'ﬁ', '', ' ', 'a,b', '"q"', "it's", 'line\nbreak', 'crlf\r\nx', 'ünï', '日本語', 'tab\t', ' lead', 'trail ', '0', 'None', 'nan'])
ID_TEXT = st.one_of(TEXT, NASTY, st.text(alphabet='abcXYZ019_.-/', min_size=1, max_size=10))

JSON_LEAF = st.one_of(st.none(), st.booleans(), st.integers(-2 ** 70, 2 ** 70), st.floats(allow_nan=False, allow_infinity=False), TEXT, NASTY)
JSON_VALUE = st.recursive(JSON_LEAF, lambda ch: st.one_of(st.lists(ch, max_size=4), st.dictionaries(TEXT, ch, max_size=4)), max_leaves=10)
OPT_TEXT = st.one_of(st.none(), st.just(''), TEXT, NASTY)


@st.composite
def payload(draw, max_sigs=12, allow_big=False, min_sigs=1, allow_medium=False, medium_rate=40, big_rate=8):
	k = draw(st.one_of(st.integers(1, 32), st.sampled_from([4, 5, 8, 9, 16, 17, 31, 32]), st.integers(1, 12)))
	prefix = draw(st.text(alphabet='ACGT', min_size=1, max_size=8))
	n = draw(st.integers(min_sigs, max_sigs))
	shape = draw(st.sampled_from(['mixed', 'mixed', 'all_empty', 'some_empty', 'one', 'mixed']))
	sigs = []
	for i in range(n):
		if shape == 'all_empty':
			ln = 0
		elif shape == 'some_empty':
			ln = draw(st.sampled_from([0, 0, 1, 5]))
		elif shape == 'one':
			ln = 1
		else:
			ln = draw(st.one_of(st.integers(0, 6), st.integers(0, 60)))
		sigs.append([ln, draw(st.integers(0, 2 ** 20)), draw(st.sampled_from(['rand', 'rand', 'top', 'bottom']))])
	if allow_big and draw(st.integers(0, big_rate - 1)) == big_rate - 1:
		sigs = [[draw(st.integers(100000, 300000)), draw(st.integers(0, 99)), 'rand'] for _ in range(draw(st.integers(2, 6)))]
		k = max(k, 12)
	if allow_medium and draw(st.integers(0, medium_rate - 1)) == medium_rate - 1:
		# more values than any plausible read-ahead / write buffer (64 Ki elements), still cheap to build
		sigs = [[draw(st.integers(15000, 40000)), draw(st.integers(0, 99)), 'rand'] for _ in range(draw(st.integers(3, 6)))]
		k = max(k, 12)
	n = len(sigs)
	idkind = draw(st.sampled_from(['none', 'str', 'none', 'i8', 'u8', 'str', 'none']))
	if idkind == 'str':
		if draw(st.integers(0, 5)) == 5:
			# string IDs that all look like numbers (accession / sample numbers with leading zeros, blanks, signs, underscores)
			num = st.one_of(st.integers(0, 99999).map(lambda v: f'{v:05d}'), st.integers(0, 10 ** 6).map(str), st.integers(0, 999).map(lambda v: f' {v} '),
			                st.integers(1, 999).map(lambda v: f'+{v}'), st.integers(1000, 99999).map(lambda v: f'{v // 1000}_{v % 1000:03d}'), st.integers(0, 99).map(lambda v: f'{v}.0'))
			ids = draw(st.lists(num, min_size=n, max_size=n, unique=True))
		else:
			ids = draw(st.lists(ID_TEXT, min_size=n, max_size=n, unique=True))
	elif idkind == 'i8':
		ids = draw(st.lists(st.one_of(st.integers(-2 ** 63, 2 ** 63 - 1), st.integers(0, 1000)), min_size=n, max_size=n, unique=True))
	elif idkind == 'u8':
		ids = draw(st.lists(st.one_of(st.integers(0, 2 ** 64 - 1), st.integers(2 ** 63, 2 ** 64 - 1)), min_size=n, max_size=n, unique=True))
	else:
		ids = None
	container = draw(st.sampled_from(['array', 'list', 'annot_array', 'annot_list']))
	if idkind != 'none':
		container = draw(st.sampled_from(['annot_array', 'annot_list']))
	meta = None
	if container.startswith('annot') and draw(st.integers(0, 3)) > 0:
		meta = {
			'id': draw(OPT_TEXT), 'name': draw(OPT_TEXT), 'version': draw(OPT_TEXT),
			'id_attr': draw(st.one_of(st.none(), st.sampled_from(['key', 'genbank_acc', 'refseq_acc', 'ncbi_id']), TEXT)),
			'description': draw(OPT_TEXT),
			'extra': draw(st.one_of(st.none(), st.just({}), st.dictionaries(TEXT, JSON_VALUE, max_size=4))),
		}
		if draw(st.integers(0, 24)) == 24:
			# metadata larger than 64 KiB (curation notes, a table of accessions): no part of the format bounds its size
			unit = draw(st.sampled_from(['curation note 0123456789 ', '注釈と系統の記録 ', 'x']))
			meta['extra'] = {'notes': unit * (70000 // len(unit) + 1), 'table': [[i, f'acc{i}'] for i in range(draw(st.sampled_from([0, 3000])))]}
			meta['description'] = draw(st.sampled_from([None, 'd' * 70000]))
	# stored integer type: usually the k-mer spec's index dtype, sometimes a wider / signed one (legitimate: the type only has to hold the values)
	width = 1 if k <= 4 else 2 if k <= 8 else 4 if k <= 16 else 8
	wider = [f'u{w}' for w in (1, 2, 4, 8) if w > width] + [f'i{w}' for w in (2, 4, 8) if w > width]
	dtype = draw(st.sampled_from([None, None, None] + wider)) if wider else None
	comp = draw(st.sampled_from([None, 'gzip', 'lzf', None, 'gzip']))
	copts = draw(st.integers(0, 9)) if comp == 'gzip' and draw(st.booleans()) else None
	return {'k': k, 'prefix': prefix, 'sigs': sigs, 'container': container, 'idkind': idkind, 'ids': ids, 'meta': meta,
	        'compression': comp, 'compression_opts': copts, 'dtype': dtype, 'ids_as': draw(st.sampled_from(['list', 'tuple', 'object', 'U'])),
	        # how the collection handed to the writer is composed: directly, as a wrapper around another annotated wrapper
	        # (re-labelled collection: the OUTER ids / metadata count), or as a collection loaded from another signature file
	        'wrap': draw(st.sampled_from([None, None, 'nested', None, 'hdf5_source']))}


def build_arrays(np, p):
	from gambit.kmers import KmerSpec
	spec = KmerSpec(p['k'], p['prefix'])
	nk = 4 ** p['k']
	dt = np.dtype(p['dtype']) if p.get('dtype') else spec.index_dtype
	arrays = []
	for ln, seed, where in p['sigs']:
		rnd = random.Random(seed * 1000003 + ln)
		ln = min(ln, nk)
		if ln > 2000:
			# large signatures: NumPy generator seeded from the case (a Python loop over millions of values dominated the run time)
			rng = np.random.default_rng(seed * 1000003 + ln)
			span = nk if where == 'rand' else max(ln * 4, 16)
			span = min(span, nk)
			draw_n = int(ln * 1.3) + 16
			raw = np.unique(rng.integers(0, span, size=draw_n, dtype=np.uint64)) if span > ln * 2 else rng.permutation(span).astype(np.uint64)
			raw = raw[:ln] if span > ln * 2 else np.sort(raw[:ln])
			if where == 'top':
				raw = np.sort(np.uint64(nk - 1) - raw)
			arrays.append(raw.astype(dt))
			continue
		if nk <= 10 ** 6:
			vals = set(rnd.sample(range(nk), ln))
		else:
			vals = set()
			span = nk if where == 'rand' else max(ln * 4, 16)
			while len(vals) < ln:
				v = rnd.randrange(span)
				vals.add(nk - 1 - v if where == 'top' else v)
		if ln and where == 'top':
			vals.pop()
			vals.add(nk - 1)
		arrays.append(np.array(sorted(vals), dtype=dt))
	return spec, arrays


def build(np, p, src_path=None):
	"""Returns (object to dump, spec, arrays, expected ids (list or ndarray), expected meta dict).

	With p['wrap'] == 'hdf5_source' and a src_path, the collection is first written to src_path and the object returned is the
	HDF5Signatures loaded from it (the caller closes it)."""
	obj, spec, arrays, exp_ids, exp_meta = _build(np, p)
	if p.get('wrap') == 'hdf5_source' and src_path is not None:
		from gambit.sigs.base import dump_signatures, load_signatures
		dump_signatures(src_path, obj)
		obj = load_signatures(src_path)
	return obj, spec, arrays, exp_ids, exp_meta


def _build(np, p):
	from gambit.sigs.base import SignatureArray, SignatureList, AnnotatedSignatures, SignaturesMeta
	spec, arrays = build_arrays(np, p)
	dt = np.dtype(p['dtype']) if p.get('dtype') else spec.index_dtype
	base = SignatureArray(arrays, spec, dtype=dt) if p['container'].endswith('array') else SignatureList(arrays, spec, dtype=dt)
	n = len(arrays)
	default_meta = {'id': None, 'name': None, 'version': None, 'id_attr': None, 'description': None, 'extra': {}}
	if p.get('wrap') == 'nested':
		# an already annotated collection that is annotated again: the inner labels and metadata are not the ones to be stored
		base = AnnotatedSignatures(base, [f'inner-{i}' for i in range(n)] if n % 2 else np.arange(1000, 1000 + n),
		                           SignaturesMeta(id='INNER', name='inner collection', version='0', id_attr='refseq_acc', description='inner', extra={'inner': True}))
		if not p['container'].startswith('annot'):
			return AnnotatedSignatures(base), spec, arrays, ('int', list(range(n))), default_meta
	if not p['container'].startswith('annot'):
		return base, spec, arrays, ('int', list(range(n))), default_meta
	if p['idkind'] == 'str':
		how = p.get('ids_as', 'list')
		ids_arg = list(p['ids']) if how == 'list' else tuple(p['ids']) if how == 'tuple' else np.array(p['ids'], dtype=object) if how == 'object' else np.array(p['ids'])
		if how == 'U' and (ids_arg.dtype.kind != 'U' or [str(x) for x in ids_arg] != list(p['ids'])):
			ids_arg = list(p['ids'])     # NumPy 'U' arrays drop trailing NULs / cannot hold everything: fall back
		exp_ids = ('str', list(p['ids']))
	elif p['idkind'] == 'i8':
		ids_arg = np.array(p['ids'], dtype='i8')
		exp_ids = ('i8', list(p['ids']))
	elif p['idkind'] == 'u8':
		ids_arg = np.array(p['ids'], dtype='u8')
		exp_ids = ('u8', list(p['ids']))
	else:
		ids_arg = None
		exp_ids = ('int', list(range(n)))
	if p['meta'] is None:
		meta_arg = None
		exp_meta = default_meta
	else:
		m = p['meta']
		meta_arg = SignaturesMeta(id=m['id'], name=m['name'], version=m['version'], id_attr=m['id_attr'],
		                          description=m['description'], extra=m['extra'])
		exp_meta = dict(m)
	return AnnotatedSignatures(base, ids_arg, meta_arg), spec, arrays, exp_ids, exp_meta


def compare_loaded(np, loaded, p, spec, arrays, exp_ids, exp_meta, Violation, case, full_index=True):
	"""Raise Violation unless the loaded collection equals the payload completely."""
	if loaded.kmerspec.k != p['k'] or loaded.kmerspec.prefix != p['prefix'].encode():
		raise Violation('kmerspec', f'loaded k-mer spec {loaded.kmerspec!r}, written {p["k"]}/{p["prefix"]}', case)
	n = len(arrays)
	if len(loaded) != n:
		raise Violation('length', f'loaded {len(loaded)} signatures, written {n}', case)
	want_dt = np.dtype(p['dtype']) if p.get('dtype') else spec.index_dtype
	if np.dtype(loaded.dtype) != want_dt:
		raise Violation('dtype', f'loaded dtype {loaded.dtype}, written {want_dt}', case)
	kind, ids = exp_ids
	lids = loaded.ids
	if len(lids) != n:
		raise Violation('ids', f'loaded {len(lids)} ids for {n} signatures', case)
	if kind == 'str':
		if not all(isinstance(x, str) for x in lids) or list(lids) != ids:
			raise Violation('ids', f'loaded ids {list(lids)!r}, written {ids!r}', case)
	else:
		if np.asarray(lids).dtype.kind not in 'iu' or [int(x) for x in lids] != ids:
			raise Violation('ids', f'loaded ids {list(lids)!r} (dtype {np.asarray(lids).dtype}), written {ids!r}', case)
		if kind in ('i8', 'u8') and np.asarray(lids).dtype != np.dtype(kind):
			raise Violation('ids', f'loaded ids dtype {np.asarray(lids).dtype}, written {kind}', case)
	m = loaded.meta
	for f in ('id', 'name', 'version', 'id_attr', 'description', 'extra'):
		got = getattr(m, f)
		if got != exp_meta[f] or type(got) is not type(exp_meta[f]):
			raise Violation('meta', f'loaded meta.{f} = {got!r}, written {exp_meta[f]!r}', case)
	kept = [loaded[i] for i in range(n)]          # hold on to every signature, then read the collection again in other ways
	_ = [loaded[n - 1 - i] for i in range(n)]
	_ = list(loaded)
	for i in range(n):
		if not isinstance(kept[i], np.ndarray) or not np.array_equal(kept[i], arrays[i]):
			raise Violation('signature_aliasing', f'signature {i} obtained earlier changed (or was wrong) after later reads of the same collection: '
			                f'{kept[i][:6].tolist() if hasattr(kept[i], "tolist") else kept[i]!r}... vs written {arrays[i][:6].tolist()}...', case)
	for i in range(n):
		g = loaded[i]
		if not isinstance(g, np.ndarray) or g.dtype != want_dt or not np.array_equal(g, arrays[i]):
			raise Violation('signature', f'signature {i}: loaded {g[:6].tolist() if hasattr(g, "tolist") else g!r}... (n={len(g)}, dtype {getattr(g, "dtype", None)}), '
			                f'written {arrays[i][:6].tolist()}... (n={len(arrays[i])}, dtype {want_dt})', case)
		if n and not np.array_equal(loaded[i - n], arrays[i]):
			raise Violation('signature', f'negative index {i - n} differs', case)
