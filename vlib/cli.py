"""Drivers for the gambit command line: in-process (click.testing.CliRunner) and subprocess."""

import gc
import os
import subprocess
import sys


_calls = [0]


class CliResult:
	def __init__(self, exit_code, stdout, stderr, exception=None):
		self.exit_code = exit_code
		self.stdout = stdout
		self.stderr = stderr
		self.exception = exception

	def __repr__(self):
		return f'<CliResult exit={self.exit_code} stderr={self.stderr[-300:]!r} exc={self.exception!r}>'


def run_cli(args, cwd=None, env=None):
	"""Invoke ``gambit <args>`` in-process. Output of commands writing to stdout is captured.

	The ``query`` command must always be given ``-o FILE`` (its default output is the sys.stdout
	object bound at import time, which CliRunner cannot capture).
	"""
	from click.testing import CliRunner
	from gambit.cli import cli
	runner = CliRunner()
	old = os.getcwd()
	if cwd:
		os.chdir(cwd)
	try:
		res = runner.invoke(cli, [str(a) for a in args], env=env, catch_exceptions=True)
	finally:
		if cwd:
			os.chdir(old)
	exc = res.exception if res.exception is not None and not isinstance(res.exception, SystemExit) else None
	try:
		stderr = res.stderr
	except Exception:
		stderr = ''
	out = CliResult(res.exit_code, res.stdout, stderr, exc)
	del res
	# the commands never close the files they open: collect now and then so leaked handles do not pile up
	# (a full collection costs ~50 ms in these large worker processes, so not on every call)
	_calls[0] += 1
	if _calls[0] % 25 == 0:
		gc.collect()
	return out


def run_cli_subprocess(args, cwd=None, env_extra=None, timeout=300):
	env = dict(os.environ)
	src = os.environ.get('VERIF_GAMBIT_SRC')
	if src:
		env['PYTHONPATH'] = src + os.pathsep + env.get('PYTHONPATH', '')
	if env_extra:
		for k, v in env_extra.items():
			if v is None:
				env.pop(k, None)
			else:
				env[k] = v
	p = subprocess.run([sys.executable, '-m', 'gambit'] + [str(a) for a in args], cwd=cwd, env=env,
	                   stdout=subprocess.PIPE, stderr=subprocess.PIPE, timeout=timeout)
	res = CliResult(p.returncode, p.stdout.decode('utf-8', 'replace'), p.stderr.decode('utf-8', 'replace'))
	res.stdout_bytes = p.stdout
	return res
