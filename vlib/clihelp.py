"""Helpers shared by the command-line checks (C08, C11, C14, C16, C17, C18)."""

import csv
import io
import os

from vlib.refmodel import kmer as RK
from vlib.refmodel import jaccard as RJ
from vlib import world as Wd

FASTA_EXTS = ('.fasta', '.fna', '.ffn', '.faa', '.frn', '.fa')


def ref_sigs(contig_lists, k, prefix):
	return [RK.ref_signature([c.encode() for c in cs], k, prefix.encode()) for cs in contig_lists]


def write_sigfile(path, contig_lists, k, prefix, ids, id_attr=None):
	"""Write a signature file holding the R-KMER signatures of the given genomes."""
	import numpy as np
	from gambit.kmers import KmerSpec
	from gambit.sigs.base import SignatureArray, AnnotatedSignatures, SignaturesMeta, dump_signatures
	dt = RK.ref_dtype_str(k)
	sigs = ref_sigs(contig_lists, k, prefix)
	arrays = [np.array(s, dtype=dt) for s in sigs]
	if ids and all(isinstance(i, int) for i in ids):
		ids = np.array(ids, dtype='i8')
	dump_signatures(path, AnnotatedSignatures(SignatureArray(arrays, KmerSpec(k, prefix), dtype=np.dtype(dt)), ids, SignaturesMeta(id_attr=id_attr)))
	return sigs


def dist_str(a, b):
	"""Distance cell as the dist command prints it."""
	return format(RJ.bits_to_float(RJ.ref_dist_bits(a, b)), '.4f')


def expected_label(filename):
	"""basename minus .gz, then minus one FASTA extension."""
	name = os.path.basename(filename)
	if name.endswith('.gz'):
		name = name[:-3]
	for ext in FASTA_EXTS:
		if name.endswith(ext):
			return name[:-len(ext)]
	return name


def read_csv(path):
	with open(path, newline='', encoding='utf-8') as f:
		return list(csv.reader(f))


def write_genomes(directory, contig_lists, names, gz=None, softmask=None):
	"""Write FASTA files; returns paths. names: file names (may contain sub-directories).
	softmask: seed -> every other file is written with random lower-case stretches (same biological content)."""
	paths = []
	for i, (cs, nm) in enumerate(zip(contig_lists, names)):
		p = os.path.join(directory, nm)
		os.makedirs(os.path.dirname(p), exist_ok=True)
		Wd.write_fasta(p, cs, gz=(gz[i] if gz else False), name=f's{i}', softmask=(softmask + i if softmask is not None and i % 2 == 0 else None))
		paths.append(p)
	return paths


def make_genomes(seed, n, nanc=2, length=1500, plant=('ATGAC',), rates=(0.0, 0.01, 0.05, 0.2), dup_prob=0.15):
	"""n genomes (lists of contigs) derived from nanc ancestors by substitution; ancestors carry planted
	prefix occurrences so that even the default 11/ATGAC spec yields informative signatures."""
	import random
	rnd = random.Random(seed)
	ancs = []
	for a in range(nanc):
		seq = []
		while sum(map(len, seq)) < length:
			seq.append(''.join(rnd.choice('ACGT') for _ in range(rnd.randrange(20, 90))))
			p = rnd.choice(plant)
			hit = p + ''.join(rnd.choice('ACGT') for _ in range(14))
			seq.append(hit if rnd.random() < 0.5 else RK.ref_revcomp(hit.encode()).decode())
		ancs.append(''.join(seq))
	out = []
	for i in range(n):
		if out and rnd.random() < dup_prob:
			out.append(list(rnd.choice(out)))
			continue
		base = ancs[rnd.randrange(nanc)]
		rate = rnd.choice(rates)
		s = ''.join(rnd.choice('ACGT') if rnd.random() < rate else c for c in base)
		nc = rnd.choice((1, 1, 2, 3))
		if nc > 1:
			cuts = sorted(rnd.sample(range(1, len(s)), nc - 1))
			out.append([s[a:b] for a, b in zip([0] + cuts, cuts + [len(s)])])
		else:
			out.append([s])
	return out


def write_listfile(path, lines, style=0):
	"""Write a list file in one of several legitimate styles (all must be read the same way):
	0 LF + final newline, 1 CRLF, 2 no final newline, 3 blank lines interleaved, 4 trailing blanks after each path."""
	eol = '\r\n' if style == 1 else '\n'
	out = []
	for i, l in enumerate(lines):
		out.append(l + ('  ' if style == 4 else ''))
		if style == 3 and i % 2 == 0:
			out.append('')
	txt = eol.join(out)
	if style != 2:
		txt += eol
	if style == 3:
		txt = eol + txt
	with open(path, 'w', encoding='utf-8', newline='') as f:
		f.write(txt)


def list_cwd_setup(mode, scratch, base, rel, contig_lists):
	"""Working-directory variants for list-file input. Returns (cwd, give_dir_option).

	'decoy': the process runs in a directory that holds DIFFERENT genomes under the same relative names as the list entries
	(the entries must still be resolved against the directory given on the command line).
	'implicit': no directory option is given and the process has changed into the base directory after start-up
	(entries are relative to the current working directory at the time the command runs)."""
	if mode == 'decoy':
		dd = os.path.join(scratch, 'decoy_cwd')
		n = len(contig_lists)
		other = [contig_lists[(i + 1) % n] if n > 1 and contig_lists[(i + 1) % n] != contig_lists[i] else [c[::-1] + 'ACGTTGCA' * 3 for c in contig_lists[i]]
		         for i in range(n)]
		write_genomes(dd, other, rel)
		return dd, True
	if mode == 'implicit':
		return base, False
	return None, True


DIR_STYLES = {
	# directory name of the database -> sibling directory names a careless pattern match / path handling could confuse it with
	'brackets': ('refseq[12]', ['refseq1', 'refseq2']),
	'star': ('db*', ['db', 'dbX', 'db-old']),
	'question': ('rel?', ['rel1', 'relA']),
	'range': ('v[0-9]', ['v1', 'v7']),
	'space_hash': ('my db #2 (copy)', ['my', 'my db ']),
	'percent': ('100%_done?x=1&y', ['100']),
	'dots': ('..hidden.gdb', ['.hidden']),
}


def make_decoy_db(dirpath):
	"""A complete, valid, but DIFFERENT database directory (one genome 'decoy/g', one signature)."""
	import numpy as np
	from sqlalchemy import create_engine
	from sqlalchemy.orm import Session
	from gambit.db.models import Base, ReferenceGenomeSet, Taxon, Genome, AnnotatedGenome
	from gambit.kmers import KmerSpec
	from gambit.sigs.base import SignatureArray, AnnotatedSignatures, SignaturesMeta, dump_signatures
	os.makedirs(dirpath, exist_ok=True)
	engine = create_engine(f'sqlite:///{os.path.join(dirpath, "decoy.gdb")}')
	Base.metadata.create_all(engine)
	with Session(engine) as s:
		gset = ReferenceGenomeSet(key='decoy', version='0', name='decoy')
		t = Taxon(key='decoy/t', name='Decoy', distance_threshold=1.0, report=True, genome_set=gset)
		g = Genome(key='decoy/g', description='decoy genome', genbank_acc='DECOY1', refseq_acc='DECOY2', ncbi_db='assembly', ncbi_id=424242)
		s.add_all([gset, t, AnnotatedGenome(genome=g, genome_set=gset, taxon=t, organism='decoy')])
		s.commit()
	engine.dispose()
	dump_signatures(os.path.join(dirpath, 'decoy.gs'), AnnotatedSignatures(SignatureArray([np.array([1, 2, 3], dtype='u2')], KmerSpec(8, 'ATG')), ['decoy/g'], SignaturesMeta(id_attr='key')))


def styled_db_dir(parent, style):
	"""Directory for a database named in an awkward but legal way, next to decoy databases with similar names."""
	name, siblings = DIR_STYLES[style]
	for sib in siblings:
		make_decoy_db(os.path.join(parent, sib))
	d = os.path.join(parent, name)
	os.makedirs(d)
	return d
