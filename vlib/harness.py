"""Case loop, seeding, sharding over worker processes, shrink -> replay file, evidence writer,
known-findings handling, exit codes.

A *check module* (``checks/cNN_*.py``) provides:

``ID``, ``LEVEL`` (MANIFEST category), ``RULE`` (text: generation + non-triviality rule),
``ASSUMPTIONS`` (list of str), optional ``ENUMERATED`` (list of str describing the finite
sub-domains enumerated completely),

``strategy(tier)``     -> Hypothesis strategy producing plain-data (JSON-able) cases, or None
``budget(tier)``       -> number of generated cases (total over all workers)
``enum_cases(tier)``   -> iterator over plain-data cases of the exhaustive part (optional)
``run_case(case, ctx)``-> dict with ``nontrivial`` (bool), ``classes`` (list of str) and optionally
                          ``evals`` / ``nontrivial_count`` for batch cases; raises ``Violation``.

Exit codes of a check: 0 = held on everything explored, 1 = violation (with a
``VIOLATION property=<id> replay=<path>`` line), 2 = harness error (never a VIOLATION line).
"""

import argparse
import hashlib
import importlib
import itertools
import json
import os
import shutil
import subprocess
import sys
import tempfile
import time
import traceback
from collections import Counter

VERIF = os.path.dirname(os.path.dirname(os.path.abspath(__file__)))
NPROC_DEFAULT = 16
MAX_BUCKETS = 3            # distinct root-cause buckets collected per worker before stopping
SHRINK_CAP_S = {'quick': 30.0, 'thorough': 120.0}


class Violation(Exception):
	"""The property does not hold for this case.

	key: bucket key (root cause guess; compared with KNOWN_FINDINGS.txt).
	msg: human readable description.
	case: optional replacement replay case (e.g. the single failing element of a batch case).
	"""

	def __init__(self, key, msg, case=None):
		super().__init__(f'{key}: {msg}')
		self.key = key
		self.msg = msg
		self.case = case


class Reject(Exception):
	"""Case is outside the accepted input domain (counted; should be rare)."""


class HarnessError(Exception):
	pass


class Ctx:
	"""Per-worker context handed to run_case."""

	def __init__(self, tier, tmpdir, seed=0):
		self.tier = tier
		self.tmpdir = tmpdir
		self.seed = seed
		self._n = 0
		self.cache = {}

	def fresh_path(self, suffix='', prefix='f'):
		self._n += 1
		return os.path.join(self.tmpdir, f'{prefix}{self._n}{suffix}')

	def fresh_dir(self, prefix='d'):
		p = self.fresh_path(prefix=prefix)
		os.makedirs(p)
		return p


def setup_gambit_path():
	src = os.environ.get('VERIF_GAMBIT_SRC')
	if src:
		sys.path.insert(0, src)


def load_check(prop_id):
	cdir = os.path.join(VERIF, 'checks')
	for f in sorted(os.listdir(cdir)):
		if f.lower().startswith(prop_id.lower() + '_') and f.endswith('.py'):
			return importlib.import_module('checks.' + f[:-3])
	raise SystemExit(f'no check module for {prop_id}')


def load_known(prop_id):
	"""Return {key: text} of known (unrepaired) findings for a property. Never written at run time."""
	known = {}
	path = os.path.join(VERIF, 'KNOWN_FINDINGS.txt')
	if not os.path.exists(path):
		return known
	for line in open(path, encoding='utf-8'):
		line = line.strip()
		if not line.startswith('known:'):
			continue
		parts = line[len('known:'):].split()
		d = {}
		rest = []
		for p in parts:
			if '=' in p and p.split('=', 1)[0] in ('property', 'key') and p.split('=', 1)[0] not in d:
				d[p.split('=', 1)[0]] = p.split('=', 1)[1]
			else:
				rest.append(p)
		if d.get('property') == prop_id and 'key' in d:
			known[d['key']] = ' '.join(rest)
	return known


def case_hash(case):
	return hashlib.sha1(json.dumps(case, sort_keys=True, default=str).encode()).hexdigest()[:16]


def derive_seed(*parts):
	h = hashlib.sha256(repr(parts).encode()).digest()
	return int.from_bytes(h[:8], 'big')


class Stats:
	def __init__(self):
		self.evals = 0
		self.nontrivial_hashes = set()
		self.nontrivial_enum = 0
		self.nontrivial_batches = {}
		self.classes = Counter()
		self.samples = []
		self._sample_classes = set()
		self.rejected = 0
		self.skipped_timeout = 0
		self.known_hits = Counter()
		self.excluded_hits = Counter()
		self.enum_done = None
		self.timed_out = False

	def record(self, case, labels, hashed=True):
		n = int(labels.get('evals', 1))
		self.evals += n
		classes = list(labels.get('classes', ()))
		for c in classes:
			self.classes[c] += 1
		if 'nontrivial_count' in labels:
			if hashed:
				# generated batch case: count its non-trivial elements once per distinct case
				self.nontrivial_batches[case_hash(case)] = int(labels['nontrivial_count'])
			else:
				self.nontrivial_enum += int(labels['nontrivial_count'])
		elif labels.get('nontrivial'):
			if hashed:
				self.nontrivial_hashes.add(case_hash(case))
			else:
				self.nontrivial_enum += 1
		# samples: first two cases, then first case of each not yet seen class (bounded)
		want = len(self.samples) < 2
		if not want and len(self.samples) < 14 and labels.get('nontrivial'):
			new = [c for c in classes if c not in self._sample_classes]
			want = bool(new)
		if want:
			s = json.dumps(case, default=str)
			if len(s) > 6000:
				s = s[:6000] + '...<truncated>'
				sample = {'case_json_truncated': s}
			else:
				sample = case
			self.samples.append({'case': sample, 'labels': {k: v for k, v in labels.items()}})
			self._sample_classes.update(classes)

	def to_json(self):
		return dict(
			evals=self.evals,
			nontrivial_hashes=sorted(self.nontrivial_hashes),
			nontrivial_enum=self.nontrivial_enum,
			nontrivial_batches=self.nontrivial_batches,
			classes=dict(self.classes),
			samples=self.samples,
			rejected=self.rejected,
			skipped_timeout=self.skipped_timeout,
			known_hits=dict(self.known_hits),
			excluded_hits=dict(self.excluded_hits),
			enum_done=self.enum_done,
			timed_out=self.timed_out,
		)


####################################################################################################
# Worker
####################################################################################################

# Process-level configuration that libraries and the interpreter read once at start-up cannot be varied inside a worker:
# a few generated cases per worker (chosen by a hash of the case, so the choice is replayable) are run a second time in a
# FRESH interpreter started with one of these environments. The wrapped case {'kind': '__env__', 'env', 'inner'} is an
# ordinary case for replay files.
DEFAULT_ENV_VARIANTS = [
	{'PYTHONOPTIMIZE': '1'},                                   # python -O: assert statements are not executed
	{'PYTHONHASHSEED': '4242', 'VERIF_KEEP_HASHSEED': '1'},    # another string-hash seed: set / dict iteration orders change
	{'PYTHONOPTIMIZE': '2'},                                   # python -OO: docstrings dropped as well
	{'PYTHONDEVMODE': '1'},                                    # development mode: extra run-time checks, all warnings shown
]
ENV_CASES_PER_WORKER = {'quick': 2, 'thorough': 30}


def _env_pick(case, ctx):
	"""Index of the environment variant this case is also run under, or None."""
	mod = getattr(ctx, 'env_mod', None)
	if not mod or getattr(ctx, 'env_budget', 0) <= 0:
		return None
	import zlib
	h = zlib.crc32(json.dumps(case, sort_keys=True, default=str).encode('utf-8', 'surrogatepass'))
	if h % mod:
		return None
	return (h // mod)


def _run_one(check, case, ctx):
	"""Run a case; returns labels. Raises Violation / Reject / HarnessError."""
	if isinstance(case, dict) and case.get('kind') == '__env__':
		from vlib.subcase import run_subcase
		r = run_subcase(check.ID, case['inner'], case['env'], ctx.tmpdir)
		if r:
			raise Violation('env:' + r[0], f'in a fresh interpreter started with {case["env"]}: {r[1]}', case)
		return {'nontrivial': True, 'classes': ['fresh_interpreter:' + ','.join(f'{k}={v}' for k, v in sorted(case['env'].items()) if k != 'VERIF_KEEP_HASHSEED')]}
	try:
		labels = check.run_case(case, ctx)
	except (Violation, Reject):
		raise
	except Exception:
		raise HarnessError(traceback.format_exc())
	if labels is None:
		labels = {}
	envs = getattr(check, 'ENV_VARIANTS', DEFAULT_ENV_VARIANTS)
	if envs and labels.get('expects_rejection') and getattr(ctx, 'rej_budget', 0) > 0:
		# cases whose expected outcome is a REFUSAL (invalid k-mer, incomplete database, foreign file, parameter mismatch, bad index):
		# the first few per worker are run again with assertions disabled - validation must not live in an assert statement
		ctx.rej_budget -= 1
		extra = _run_one(check, {'kind': '__env__', 'env': {'PYTHONOPTIMIZE': '1'}, 'inner': case}, ctx)
		labels = dict(labels)
		labels['classes'] = list(labels.get('classes', ())) + ['refusal_case_also_with_python_-O']
	pick = _env_pick(case, ctx) if envs else None
	if pick is not None:
		ctx.env_budget -= 1
		env = envs[pick % len(envs)]
		extra = _run_one(check, {'kind': '__env__', 'env': env, 'inner': case}, ctx)
		labels = dict(labels)
		labels['classes'] = list(labels.get('classes', ())) + extra['classes']
	return labels


def worker_main(args):
	setup_gambit_path()
	sys.path.insert(0, VERIF)
	check = load_check(args.prop)
	tier = args.tier
	shard, nshards = args.shard, args.nshards
	known = load_known(check.ID)
	stats = Stats()
	tmpdir = tempfile.mkdtemp(prefix=f'verif-{check.ID}-')
	ctx = Ctx(tier, tmpdir, seed=args.seed)
	t_end = time.time() + args.deadline
	violations = []      # dicts key,msg,case
	harness_error = None
	excluded = set()

	def note_violation(v, case):
		rc = v.case if v.case is not None else case
		violations.append(dict(key=v.key, msg=v.msg, case=rc))
		excluded.add(v.key)

	try:
		# 0. regress corpus (worker 0 only)
		if shard == 0:
			rdir = os.path.join(VERIF, 'regress', check.ID)
			if os.path.isdir(rdir):
				for f in sorted(os.listdir(rdir)):
					if not f.endswith('.json'):
						continue
					data = json.load(open(os.path.join(rdir, f), encoding='utf-8'))
					case = data['case']
					try:
						labels = _run_one(check, case, ctx)
						labels = dict(labels)
						labels['classes'] = list(labels.get('classes', ())) + ['regress_corpus']
						stats.record(case, labels)
					except Violation as v:
						if v.key in known:
							stats.known_hits[v.key] += 1
						elif v.key not in excluded:
							v.msg = f'[regress/{f}] ' + v.msg
							note_violation(v, case)
					except Reject:
						stats.rejected += 1

		# 1. exhaustive part
		if hasattr(check, 'enum_cases'):
			stats.enum_done = True
			it = itertools.islice(check.enum_cases(tier), shard, None, nshards)
			for case in it:
				if time.time() > t_end:
					stats.enum_done = False
					stats.timed_out = True
					break
				try:
					labels = _run_one(check, case, ctx)
					stats.record(case, labels, hashed=False)
				except Violation as v:
					if v.key in known:
						stats.known_hits[v.key] += 1
					elif v.key in excluded:
						stats.excluded_hits[v.key] += 1
					else:
						note_violation(v, case)
						if len(violations) >= MAX_BUCKETS:
							stats.enum_done = False
							break
				except Reject:
					stats.rejected += 1

		# 2. generated part
		strat = check.strategy(tier) if hasattr(check, 'strategy') else None
		n_total = check.budget(tier) if strat is not None else 0
		n_mine = n_total // nshards + (1 if shard < n_total % nshards else 0)
		# environment re-runs: only for generated cases; about 3x as many candidates as the per-worker allowance
		ctx.env_budget = getattr(check, 'ENV_CASES_PER_WORKER', ENV_CASES_PER_WORKER).get(tier, 0)
		ctx.env_mod = max(1, n_mine // (3 * ctx.env_budget)) if ctx.env_budget else None
		ctx.rej_budget = {'quick': 2, 'thorough': 25}.get(tier, 0)
		rnd = 0
		remaining = n_mine
		while strat is not None and remaining > 0 and len(violations) < MAX_BUCKETS and time.time() < t_end:
			seed = derive_seed(args.seed, check.ID, shard, rnd)
			res = _hypothesis_round(check, strat, ctx, stats, known, excluded, seed, remaining, t_end, tier)
			remaining -= res['generated']
			if res['violation'] is not None:
				v, case = res['violation']
				note_violation(v, case)
			elif res['generated'] == 0:
				break
			rnd += 1
			if res['violation'] is None:
				break
		if time.time() >= t_end:
			stats.timed_out = True
	except HarnessError as e:
		harness_error = str(e)
	except Exception:
		harness_error = traceback.format_exc()
	finally:
		shutil.rmtree(tmpdir, ignore_errors=True)

	out = stats.to_json()
	out['violations'] = violations
	out['harness_error'] = harness_error
	with open(args.out, 'w', encoding='utf-8') as f:
		json.dump(out, f, default=str)
	return 0


def _hypothesis_round(check, strat, ctx, stats, known, excluded, seed, n_examples, t_end, tier):
	import hypothesis
	from hypothesis import given, settings, HealthCheck, Phase

	state = dict(best=None, t_first=None, generated=0, harness=None)
	cap = SHRINK_CAP_S.get(tier, 60.0)

	@hypothesis.seed(seed)
	@settings(
		max_examples=n_examples,
		database=None,
		deadline=None,
		derandomize=False,
		report_multiple_bugs=False,
		print_blob=False,
		phases=[Phase.generate, Phase.shrink],
		suppress_health_check=[HealthCheck.too_slow, HealthCheck.data_too_large,
		                       HealthCheck.large_base_example, HealthCheck.function_scoped_fixture],
	)
	@given(strat)
	def test(case):
		shrinking = state['best'] is not None
		if shrinking:
			if time.time() - state['t_first'] > cap:
				return      # shrink budget used up: let the shrinker run dry; best case is kept by us
		else:
			if time.time() > t_end:
				stats.skipped_timeout += 1
				return
			state['generated'] += 1
		try:
			labels = _run_one(check, case, ctx)
		except Reject:
			if not shrinking:
				stats.rejected += 1
			return
		except Violation as v:
			if v.key in known:
				if not shrinking:
					stats.known_hits[v.key] += 1
				return
			if v.key in excluded:
				if not shrinking:
					stats.excluded_hits[v.key] += 1
				return
			if state['best'] is not None and v.key != state['best'][0].key:
				return  # shrink only within the same bucket
			state['best'] = (v, case)
			if state['t_first'] is None:
				state['t_first'] = time.time()
			raise
		except HarnessError as e:
			state['harness'] = str(e)
			raise
		if not shrinking:
			stats.record(case, labels)

	try:
		test()
	except HarnessError:
		raise
	except Exception as e:
		if state['harness'] is not None and state['best'] is None:
			raise HarnessError(state['harness'])
		if state['best'] is None:
			# hypothesis-internal failure (health check, flaky, ...) -> harness error
			raise HarnessError('hypothesis error without recorded violation:\n' + traceback.format_exc())
	return dict(generated=state['generated'], violation=state['best'])


####################################################################################################
# Parent
####################################################################################################

def write_replay(prop_id, viol):
	rdir = os.path.join(VERIF, 'replays', prop_id)
	os.makedirs(rdir, exist_ok=True)
	body = dict(property=prop_id, key=viol['key'], msg=viol['msg'], case=viol['case'])
	h = hashlib.sha1(json.dumps(body['case'], sort_keys=True, default=str).encode()).hexdigest()[:16]
	path = os.path.join(rdir, h + '.json')
	with open(path, 'w', encoding='utf-8') as f:
		json.dump(body, f, indent=1, default=str)
	return path


def replay_main(args):
	setup_gambit_path()
	sys.path.insert(0, VERIF)
	from vlib import build
	build.ensure_built()
	check = load_check(args.prop)
	data = json.load(open(args.replay, encoding='utf-8'))
	case = data['case'] if isinstance(data, dict) and 'case' in data else data
	known = load_known(check.ID)
	tmpdir = tempfile.mkdtemp(prefix=f'verif-{check.ID}-replay-')
	ctx = Ctx(args.tier, tmpdir)
	try:
		try:
			labels = check.run_case(case, ctx)
		except Violation as v:
			if v.key in known:
				print(f'KNOWN-FINDING: property={check.ID} {v.key} {known[v.key]}')
				return 0
			print(f'violation: key={v.key} {v.msg}')
			print(f'VIOLATION property={check.ID} replay={os.path.abspath(args.replay)}')
			return 1
		except Reject as r:
			print(f'case rejected as outside the input domain: {r}')
			return 0
		print(f'replay passed: labels={json.dumps(labels, default=str)}')
		return 0
	except Exception:
		traceback.print_exc()
		print('HARNESS-ERROR during replay', file=sys.stderr)
		return 2
	finally:
		shutil.rmtree(tmpdir, ignore_errors=True)


def parent_main(args):
	t0 = time.time()
	sys.path.insert(0, VERIF)
	from vlib import build
	try:
		notes = build.ensure_built()
	except Exception:
		traceback.print_exc()
		print('HARNESS-ERROR: build failed', file=sys.stderr)
		return 2
	setup_gambit_path()
	check = load_check(args.prop)
	tier = args.tier
	seed = args.seed
	nproc = getattr(check, 'NPROC', {}).get(tier, NPROC_DEFAULT) if isinstance(getattr(check, 'NPROC', None), dict) else NPROC_DEFAULT
	nproc = min(nproc, os.cpu_count() or 1, NPROC_DEFAULT)
	deadline = getattr(check, 'DEADLINE_S', {'quick': 240, 'thorough': 2400})[tier]
	known = load_known(check.ID)

	outdir = tempfile.mkdtemp(prefix=f'verif-{check.ID}-parent-')
	procs = []
	env = dict(os.environ)
	env['PYTHONHASHSEED'] = '0'
	env.setdefault('OMP_NUM_THREADS', '4')
	env.setdefault('OMP_WAIT_POLICY', 'passive')
	env.setdefault('GOMP_SPINCOUNT', '0')
	try:
		for i in range(nproc):
			out = os.path.join(outdir, f'w{i}.json')
			cmd = [sys.executable, os.path.join(VERIF, 'run.py'), args.prop, '--tier', tier, '--seed', str(seed),
			       '--worker', f'{i}/{nproc}', '--out', out, '--deadline', str(deadline)]
			log = open(os.path.join(outdir, f'w{i}.log'), 'w')
			procs.append((subprocess.Popen(cmd, env=env, stdout=log, stderr=subprocess.STDOUT, cwd=VERIF), out, log))
		results = []
		errors = []
		for i, (p, out, log) in enumerate(procs):
			try:
				rc = p.wait(timeout=deadline * 3 + 600)
			except subprocess.TimeoutExpired:
				p.kill()
				rc = -9
			log.close()
			logtxt = open(log.name, errors='replace').read()
			if rc != 0 or not os.path.exists(out):
				errors.append(f'worker {i} exited with status {rc}\n{logtxt[-4000:]}')
				continue
			results.append(json.load(open(out, encoding='utf-8')))
			if results[-1].get('harness_error'):
				errors.append(f'worker {i}: {results[-1]["harness_error"]}')
	finally:
		for p, _, _ in procs:
			if p.poll() is None:
				p.kill()
		shutil.rmtree(outdir, ignore_errors=True)

	# merge
	evals = sum(r['evals'] for r in results)
	hashes = set()
	for r in results:
		hashes.update(r['nontrivial_hashes'])
	batches = {}
	for r in results:
		batches.update(r.get('nontrivial_batches', {}))
	nontrivial = len(hashes) + sum(r['nontrivial_enum'] for r in results) + sum(batches.values())
	classes = Counter()
	for r in results:
		classes.update(r['classes'])
	samples = []
	seen_cls = set()
	for r in results:
		for s in r['samples']:
			cls = set(s['labels'].get('classes', ()))
			if len(samples) < 3 or (cls - seen_cls and len(samples) < 20):
				samples.append(s)
				seen_cls |= cls
	known_hits = Counter()
	excluded_hits = Counter()
	for r in results:
		known_hits.update(r['known_hits'])
		excluded_hits.update(r['excluded_hits'])
	viols = {}
	for r in results:
		for v in r['violations']:
			cur = viols.get(v['key'])
			size = len(json.dumps(v['case'], default=str))
			if cur is None or size < cur[0]:
				viols[v['key']] = (size, v)
	enum_flags = [r['enum_done'] for r in results if r['enum_done'] is not None]
	has_enum = hasattr(check, 'enum_cases')
	exhaustive = bool(has_enum and enum_flags and all(enum_flags) and len(results) == nproc and not viols)
	timed_out = any(r['timed_out'] for r in results)
	wall = time.time() - t0

	assumptions = list(getattr(check, 'ASSUMPTIONS', [])) + list(notes)
	if timed_out:
		assumptions.append('time budget reached before the case budget: run is inconclusive beyond the cases counted here')
	coverage = dict(
		evaluations=evals,
		distinct_nontrivial=nontrivial,
		rule=check.RULE,
		samples=samples,
		exhaustive=exhaustive,
		enumerated=list(getattr(check, 'ENUMERATED', {}).get(tier, [])) if has_enum and isinstance(getattr(check, 'ENUMERATED', None), dict) else list(getattr(check, 'ENUMERATED', [])),
		classes=dict(sorted(classes.items())),
		excluded_known=dict(known_hits),
		excluded_buckets=dict(excluded_hits),
		rejected=sum(r['rejected'] for r in results),
		skipped_timeout=sum(r['skipped_timeout'] for r in results),
		workers=nproc,
		generated_budget=check.budget(tier) if hasattr(check, 'budget') else 0,
	)
	evidence = dict(
		property_id=check.ID,
		tier=tier,
		seed=seed,
		level=check.LEVEL,
		coverage=coverage,
		assumptions=assumptions,
		wall_s=round(wall, 2),
		violations=len(viols),
	)
	os.makedirs(os.path.join(VERIF, 'evidence'), exist_ok=True)
	# evidence describes runs against /repo itself: a run against another source tree (VERIF_GAMBIT_SRC: mutants, seeded
	# changes) must not overwrite it
	if (not errors or viols) and not os.environ.get('VERIF_GAMBIT_SRC'):
		with open(os.path.join(VERIF, 'evidence', f'{check.ID}.json'), 'w', encoding='utf-8') as f:
			json.dump(evidence, f, indent=1, default=str)
			f.write('\n')

	print(f'[{check.ID}] tier={tier} seed={seed} workers={nproc} evaluations={evals} '
	      f'distinct_nontrivial={nontrivial} wall={wall:.1f}s exhaustive_part_complete={exhaustive}')
	top = ', '.join(f'{k}={v}' for k, v in sorted(classes.items(), key=lambda kv: -kv[1])[:40])
	print(f'[{check.ID}] classes: {top}')
	for key, n in sorted(known_hits.items()):
		print(f'KNOWN-FINDING: property={check.ID} {key} {known.get(key, "")} (hit {n} times)')
	for key, (_, v) in sorted(viols.items()):
		path = write_replay(check.ID, v)
		print(f'violation: key={key} {v["msg"]}')
		print(f'VIOLATION property={check.ID} replay={path}')
	if viols:
		return 1
	if errors:
		for e in errors:
			print('HARNESS-ERROR: ' + e, file=sys.stderr)
		return 2
	if evals == 0:
		print('HARNESS-ERROR: no case evaluated', file=sys.stderr)
		return 2
	return 0


def main(argv=None):
	ap = argparse.ArgumentParser()
	ap.add_argument('prop')
	ap.add_argument('--tier', default=os.environ.get('VERIF_TIER') or 'quick', choices=['quick', 'thorough'])
	ap.add_argument('--seed', type=int, default=None)
	ap.add_argument('--replay')
	ap.add_argument('--worker')
	ap.add_argument('--out')
	ap.add_argument('--deadline', type=float, default=600)
	args = ap.parse_args(argv)
	if args.seed is None:
		try:
			args.seed = int(os.environ.get('VERIF_SEED', '0') or 0)
		except ValueError:
			args.seed = 0
	if os.environ.get('PYTHONHASHSEED') != '0' and not os.environ.get('VERIF_KEEP_HASHSEED'):
		env = dict(os.environ)
		env['PYTHONHASHSEED'] = '0'
		os.execve(sys.executable, [sys.executable] + sys.argv, env)
	if args.replay:
		return replay_main(args)
	if args.worker:
		args.shard, args.nshards = map(int, args.worker.split('/'))
		return worker_main(args)
	return parent_main(args)
