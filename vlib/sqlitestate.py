"""Put an SQLite database file into unusual but valid on-disk states (shared by C04 and C18)."""

import os
import shutil
import sqlite3


def keep_wal_hot(path, con):
	"""`con` is an open connection on `path` in WAL mode with committed transactions that are not checkpointed.
	Closes it while keeping path, path-wal and path-shm exactly as they are now (closing the last connection would
	checkpoint the log into the file and delete it): the state of a directory copied while a writer had the file open."""
	saved = []
	for suf in ('', '-wal', '-shm'):
		if os.path.exists(path + suf):
			shutil.copy(path + suf, path + suf + '.verifkeep')
			saved.append(suf)
	con.close()
	for suf in saved:
		os.replace(path + suf + '.verifkeep', path + suf)


def stale_main_true_wal(path, column):
	"""Rewrite `path` so that the database FILE holds the values of genomes.<column> rotated among the rows (a stale, wrong
	state) while a write-ahead log beside it holds the committed transaction that sets the true values. Every SQLite reader
	sees the true values; a reader that ignores the log sees genomes labelled with each other's identifiers."""
	con = sqlite3.connect(path)
	rows = con.execute(f'SELECT id, {column} FROM genomes WHERE {column} IS NOT NULL ORDER BY id').fetchall()
	if len(rows) < 2:
		con.close()
		return False
	ids = [r[0] for r in rows]
	vals = [r[1] for r in rows]
	is_int = all(isinstance(v, int) for v in vals)

	def assign(values):
		for i in ids:
			con.execute(f'UPDATE genomes SET {column} = ? WHERE id = ?', ((-10 ** 15 - i) if is_int else f'\x01tmp#{i}', i))
		for i, v in zip(ids, values):
			con.execute(f'UPDATE genomes SET {column} = ? WHERE id = ?', (v, i))
	assign(vals[1:] + vals[:1])
	con.commit()
	con.execute('PRAGMA journal_mode=WAL')
	con.execute('PRAGMA wal_autocheckpoint=0')
	assign(vals)
	con.commit()
	keep_wal_hot(path, con)
	return True
