#!/bin/bash
# usage: run_all.sh <tier> <seed>   - runs every registered check sequentially, prints one line each
tier=${1:-quick}; seed=${2:-0}
cd "$(dirname "$0")/.."
for id in C01 C02 C03 C04 C05 C06 C07 C08 C09 C10 C11 C12 C13 C14 C15 C16 C17 C18 C19 C20; do
  s=$(date +%s)
  out=$(VERIF_SEED=$seed /venv/bin/python run.py $id --tier $tier 2>&1); rc=$?
  e=$(date +%s)
  echo "$id rc=$rc $((e-s))s $(echo "$out" | head -1 | cut -c1-140)"
  if [ $rc -ne 0 ]; then echo "$out" | grep -v '^\[' | head -8; fi
done
