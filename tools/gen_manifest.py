#!/venv/bin/python
"""Generate /verif/MANIFEST.json from the per-property table below (single source of truth)."""
import json, os, sys

VERIF = os.path.dirname(os.path.dirname(os.path.abspath(__file__)))

PY = '/venv/bin/python'

# property -> (category, technique, level text, level note, design ref)
CHECKS = {
	'C07': dict(
		category='exploration',
		technique='exhaustive enumeration (all k-mers k<=8, all byte strings len<=2) + Hypothesis-generated long k-mers/indices against a positional-arithmetic oracle',
		text='Complete enumeration of the small sub-domains named in the property (every k-mer up to k=8, every 0..2-byte string, boundary k-mers for every k up to 32, over-long strings) plus generated 9..32-mers, near-miss bytes and 64-bit indices, each compared with Python-int positional arithmetic and a 256-entry complement table. Exhaustive where the property says exhaustive; sampled (tens of thousands to a million cases) for k>8.',
		note='Trusts the harness oracle (vlib/refmodel/kmer.py). Native code is tested as the generated C translation compiled by gcc (Cython is not available in the sandbox to re-translate an edited .pyx).',
		design='DESIGN.md §4 C07',
	),
}

NOT_APPLICABLE = {}

ALL = [f'C{n:02d}' for n in range(1, 21)]


def main():
	checks = []
	for pid in ALL:
		if pid not in CHECKS:
			continue
		c = CHECKS[pid]
		checks.append(dict(
			property_id=pid,
			quick_cmd=f'{PY} run.py {pid} --tier quick',
			thorough_cmd=f'{PY} run.py {pid} --tier thorough',
			evidence_file=f'/verif/evidence/{pid}.json',
			replay_cmd_template=f'{PY} run.py {pid} --replay {{path}}',
			engine='pbt-harness',
			level_claimed=dict(category=c['category'], text=c['text'], design_ref=c['design']),
			level_note=c['note'],
			technique=c['technique'],
		))
	na = []
	for pid in ALL:
		if pid in CHECKS:
			continue
		na.append(dict(property_id=pid, reason=NOT_APPLICABLE.get(pid, 'not claimed yet: the generated-input check for this property is designed (DESIGN.md §4) but not yet built/registered')))
	manifest = dict(
		version=1,
		setup_cmd=f'{PY} -c "import hypothesis" 2>/dev/null || /venv/bin/pip install --no-index --find-links /opt/veriftools/wheels hypothesis; {PY} -m vlib.build',
		hooks=dict(
			guard='GAMBIT_VERIF',
			enable='no source hooks are needed: checks drive public entry points (executor=, omp_set_num_threads, CliRunner) of the working tree; native modules are rebuilt from the generated C by vlib/build.py when stale',
			baseline_off_cmd='cd /repo && /venv/bin/python -m pytest -ra -q -p no:cacheprovider --timeout=900 --continue-on-collection-errors',
			source_commits=[],
			add_only=True,
		),
		engines=[dict(
			name='pbt-harness',
			path='/verif/run.py',
			serves_properties=[c['property_id'] for c in checks],
			kind_free_text='Hypothesis 6.168 generators + complete enumeration of small finite sub-domains, sharded over 16 worker processes; explicit reference-model / round-trip / metamorphic oracles per property; shrunk failures become replay files',
		)],
		checks=checks,
		notes='Every check: exit 0 = held on everything explored; exit 1 + "VIOLATION property=<id> replay=<path>"; exit 2 = harness error (never a VIOLATION). Seeds: VERIF_SEED. Known findings: /verif/KNOWN_FINDINGS.txt. Sensitivity suite: /verif/mutants/run.py and /verif/seeded/.',
		not_applicable=na,
	)
	with open(os.path.join(VERIF, 'MANIFEST.json'), 'w') as f:
		json.dump(manifest, f, indent=1)
		f.write('\n')
	# validate
	try:
		import jsonschema
		jsonschema.validate(manifest, json.load(open('/root/.vp/MANIFEST.schema.json')))
		print('MANIFEST.json valid;', len(checks), 'checks,', len(na), 'not_applicable')
	except ImportError:
		print('MANIFEST.json written (jsonschema not importable here; validate with python3-vt)')


if __name__ == '__main__':
	main()
