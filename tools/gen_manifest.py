#!/venv/bin/python
"""Generate /verif/MANIFEST.json from the per-property table below (single source of truth)."""
import json, os, sys

VERIF = os.path.dirname(os.path.dirname(os.path.abspath(__file__)))

PY = '/venv/bin/python'

# property -> (category, technique, level text, level note, design ref)
CHECKS = {
	'C07': dict(
		category='exploration',
		technique='exhaustive enumeration (all k-mers k<=8, all byte strings len<=2) + Hypothesis-generated long k-mers/indices against a positional-arithmetic oracle',
		text='Complete enumeration of the small sub-domains named in the property (every k-mer up to k=8, every 0..2-byte string, boundary k-mers for every k up to 32, over-long strings) plus generated 9..32-mers, near-miss bytes, 64-bit indices, Bio.Seq / NumPy-integer arguments (index and k, for every k up to 32) and strided byte buffers, and short call sequences executed as the first native calls of a fresh interpreter (lazily initialised state; interpreter started plainly, with -O, -OO or -X dev) and conversions called from several Python threads at once, each compared with Python-int positional arithmetic and a 256-entry complement table. Exhaustive where the property says exhaustive; sampled (tens of thousands to a million cases) for k>8.',
		note='Trusts the harness oracle (vlib/refmodel/kmer.py). Native code is tested as the generated C translation compiled by gcc (Cython is not available in the sandbox to re-translate an edited .pyx).',
		design='DESIGN.md §4 C07',
	),
	'C01': dict(
		category='exploration',
		technique='exhaustive short strings x small specs + Hypothesis fragment-built sequences vs a definitional both-strand k-mer finder (reference model)',
		text='Every string up to length 6 (quick) / 8 (thorough) over two 4-letter alphabets for 18 (k,prefix) specs is compared with a definitional scan of both strands, which settles off-by-one errors in either search bound and the reverse slice for short inputs completely; the KmerSpec object is reached in eight legal ways (prefix in upper / lower / mixed case, str / bytes / bytearray / Bio.Seq, k as a NumPy integer, pickled copy); one-shot iterables (generator, map, iter) together with explicit accumulators; accumulator objects re-used with and without clear(); 1.6 M-nucleotide sequences with prefix occurrences planted around power-of-two and power-of-ten offsets; generated multi-sequence inputs (arbitrary bytes, overlapping/self-overlapping/palindromic prefixes up to 12 nt, hits flush with either end, k up to 32) are run through all four input types and all accumulators and compared value-for-value, dtype and order; find_kmers matches are compared with the definitional occurrences; whitespace inside a sequence counts as any other non-ACGT character (it is never removed so that its flanks join); 3 cases in 5 are preceded by calls that fail part-way, which must leave no trace.',
		note='Trusts vlib/refmodel/kmer.py (literal reverse-complement strand, Python-int base-4 code). Dense accumulator only for k<=12 (4^k bytes). Native encoders tested as the existing C translation.',
		design='DESIGN.md §4 C01',
	),
	'C02': dict(
		category='exploration',
		technique='exhaustive subset pairs x 36 dtype pairs + Hypothesis-generated boundary-straddling sets vs exact integer ratio rounded once to binary32 (bit compare)',
		text='All ordered pairs of subsets of a 6/8-element universe in all 36 dtype combinations, plus generated pairs (patterns: equal, disjoint, nested, interleaved, same last, prefix, empty; universes straddling 2^15/2^16/2^31/2^32/2^63 and ending at the top of the wider type; universes whose values alias each other modulo 2^16 / 2^32; sets up to 3000 elements and size-skewed pairs (one set >= 4096, the other <= 1/64 of it, values above 2^53); strided views; the other NumPy names of the 64-bit types (long long: equal dtype, distinct scalar type); byte-swapped copies, which may be refused but must never give another value; both argument orders) are compared bit-for-bit with an integer-arithmetic round-half-even oracle; jaccard() must be one minus that distance.',
		note='Trusts vlib/refmodel/jaccard.py. Sets >= 2^24 elements are not built. Signed arrays hold non-negative values only (documented precondition).',
		design='DESIGN.md §4 C02',
	),
	'C15': dict(
		category='exploration',
		technique='exhaustive triples of subsets (5/7-element universe) + Hypothesis-generated perturbed set triples checked against the metric axioms (invariant oracle)',
		text='Range, identity of indiscernibles, d=1 iff disjoint, bit-exact symmetry, triangle inequality (slack 2^-22), width independence and strict decrease on adding a fresh k-mer are asserted for every ordered triple of subsets of a small universe in three width assignments, and for generated triples of related sets up to 2000 elements, including sets whose values alias modulo 2^16 / 2^32 under mixed widths, and large near-equal sets (up to 2^20 elements) for the strict-decrease law.',
		note='Axioms are checked on the values returned by gambit.metric.jaccarddist; exactness of each value is C02. Strict decrease asserted for |AuB| < 2^20, where the two exact ratios differ by a relative 1/(|AuB|+1) > 2^-20, i.e. by more than a binary32 spacing, so one correct rounding cannot merge them.',
		design='DESIGN.md §4 C15',
	),
	'C20': dict(
		category='exploration',
		technique='exhaustive index expressions (n<=4/6) over 3 container types + Hypothesis-generated expressions, equality pairs and list-mutation histories vs a Python list model',
		text='Every int index, slice (all start/stop/step over a small range incl. step 0), index list of length <=3 and boolean mask is evaluated on SignatureArray, SignatureList and file-backed HDF5Signatures of length 0..4 (quick) / 0..6 (thorough) and compared with what a plain list of the arrays gives (selection, error class, k-mer spec, dtype, caller index array unmodified); longer collections in further container variants (int32 / uint64 bounds, windows with bounds[0] != 0, views, gzip-compressed files), ill-typed indices, unsigned indices up to 2^64-1, index containers NumPy wraps without copying (array.array, memoryview, __array__ objects: must come back unmodified), pickled and deep-copied containers, cross-container equality pairs (incl. reverse-complement prefixes and reference sets carrying identical release metadata) scalar results held while the rest of the collection is read, range objects (every start / stop / step over the small range) and 50-step SignatureList mutation histories (model-based, including sub-collections sliced off earlier, which must stay independent lists) are generated.',
		note='Oracle is a Python list; view/copy semantics are not asserted. A Python bool as scalar index is excluded (list and NumPy semantics disagree). Three genuine defects found and repaired (see KNOWN_FINDINGS.txt).',
		design='DESIGN.md §4 C20',
	),
	'C05': dict(
		category='exploration',
		technique='Hypothesis-generated collections x containers x chunk sizes x index selections x out buffers x thread counts, repeated runs; differential oracle: pairwise jaccarddist + exact rational distance per cell (bit compare)',
		text='Every cell of jaccarddist_array / jaccarddist_matrix / jaccarddist_pairwise (square and condensed) is compared bit-for-bit with the two-signature distance and, for sets <= 400 elements, with the exact rational value rounded once to binary32, over generated collections (empty signatures, duplicates, 5000-element signatures) held in SignatureArray (incl. int32 / unsigned / big-endian bounds and zero-copy windows whose bounds do not start at 0), SignatureList, plain list and HDF5 files, values aliasing modulo 2^16/2^32 under mixed dtypes, index arrays of several integer dtypes, with chunk sizes 1..n+1, permuted/repeated/empty index selections, fresh and strided out buffers, and 1..16 OpenMP threads, each call repeated 3x (quick) / 20x (thorough); a sample of cases is re-run in a fresh interpreter whose OpenMP runtime is configured through the environment (OMP_THREAD_LIMIT below the requested thread count, OMP_DYNAMIC, OMP_SCHEDULE, OMP_NUM_THREADS, OMP_PROC_BIND); further dimensions: lists of mixed integer types, queries sliced from the open reference file, several Python threads calling at once, 999..2049 references against a vectorised exact oracle, a call interrupted from a signal handler whose out buffer is then re-used and watched.',
		note='The OpenMP dynamic schedule cannot be owned from Python: thread interleavings are sampled (thread counts x repeats), not enumerated, so a rare data race can be missed (a seeded shared-variable race is caught within the quick budget). OMP_WAIT_POLICY=passive is set for the workers.',
		design='DESIGN.md §4 C05',
	),
	'C12': dict(
		category='exploration',
		technique='Hypothesis-generated signature collections: dump/load round trip vs a list model; generated foreign byte strings and foreign HDF5 files must be refused',
		text='Round trips over k 1..32 (all four index widths, values up to 4^k-1), empty/all-empty signatures, both write paths, string/int64/uint64 IDs (also strings that all look like numbers), Unicode metadata (up to 70 k characters) and IDs (also not in normalisation form C) with nested JSON extra and every compression filter, stored integer types wider than / signed variants of the k-mer spec type, payloads above 64 Ki values, overwritten paths, pathlib paths, wrappers around already annotated wrappers (the outer labels count) and collections loaded from another signature file are compared field by field and index expression by index expression with a Python list model; generated non-signature files (empty, text, FASTA, random, gzip, short prefixes, HDF5 files of other kinds incl. signature-shaped files lacking only the marker, files carrying an HDF5 superblock at a non-zero offset such as a tar archive of a signature file) must raise SignaturesFileError, and corrupt HDF5-magic files some exception.',
		note='Strings contain no NUL / lone surrogates (not storable in HDF5 vlen strings). h5py/HDF5 are part of the system under test only through gambit\'s use of them.',
		design='DESIGN.md §4 C12',
	),
	'C19': dict(
		category='fault_enumeration',
		technique='process-level fault injection: forked writer ended (SIGKILL / SIGTERM / SIGINT) before each h5py call boundary (all points enumerated per generated payload) + strace system-call fault injection; oracle: load raises or loads exactly the payload',
		text='For each generated payload (both write paths, small and multi-megabyte, with/without compression) every storage-call boundary of the write is used as a crash point (one forked writer per point, plus the after-close control), the writer being the library call or the `signatures create` command and being ended by SIGKILL (nothing runs), SIGTERM or SIGINT (the interpreter unwinds, context managers close the file), the output path being absent, junk or an older complete signature file, the collection being handed over directly, as nested wrappers or as a collection loaded from another signature file; for a sample of payloads every write-type system call of a fresh writer process is used as a crash point through strace fault injection (crashes inside H5Fclose); and for a further sample the writes themselves are torn at byte granularity by an LD_PRELOAD shim (built with gcc at run time) that cuts a write after N bytes and kills the process; the file left behind must be refused or load as exactly the payload.',
		note='Library-level crash points are h5py call boundaries (attribute set, dataset create, dataset write, flush, close); system-call-level points need ptrace (the check degrades to library level if strace is unavailable). Signals model process death, not power loss. One genuine defect found and repaired (D9: an interrupted write that unwinds left a loadable zero-filled file).',
		design='DESIGN.md §4 C19',
	),
	'C06': dict(
		category='exploration',
		technique='Hypothesis-generated multi-contig genomes x file-level transformation stacks; metamorphic equality + per-contig union + definitional k-mer oracle',
		text='Each generated genome is written as a baseline FASTA and as a transformed file (per-contig reverse complement, contig permutation, case pattern, wrap width 1..200/none, CRLF, no final newline, single- and multi-member gzip with matching or mismatching file name, extensions; contigs larger than the I/O buffers; optionally after a file that failed part-way; k-mer specification built from differently spelled prefixes; a chromosome-sized contig with occurrences at block seams); the two file signatures must be identical, equal the union of the per-contig signatures and equal the definitional signature of the contig list; contigs with a dangling prefix completed by the next contig make a k-mer across the boundary detectable.',
		note='FASTA files are ASCII with one header per record; blank lines / lone-CR line endings are not generated. Biopython\'s FASTA parser is part of the path under test.',
		design='DESIGN.md §4 C06',
	),
	'C13': dict(
		category='exploration',
		technique='exhaustive enumeration of task completion orders (n<=5/6) through a controlled executor + Hypothesis-generated real-pool runs and injected unreadable files; oracle: per-file single result in input order',
		text='All n! completion orders for n <= 5 (quick) / 6 (thorough) are imposed through the public executor= argument by an executor that completes task perm[i] only after perm[i-1] was collected; plus the all-done-before-collection schedule, real thread/process pools with worker counts 1..16 and size skew, sequential mode, the `signatures create -c N` command line, a reused caller-owned thread pool, earlier failing calls in the same process, a fault (missing file, directory, truncated gzip, invalid UTF-8, junk) a well-formed file without sequence data (empty, header only, empty gzip member), a read failure of a drawn exception class (time-out, I/O error, StopIteration, futures errors, ...) injected at a drawn moment, or the death of the pool worker process handling the file, at a drawn position. Result must be one signature per file in input order equal to the single-file result and to the definitional signature of the file content; a supplied executor is left open; an unreadable file fails the whole call.',
		note='Completion order is owned only for the ordered/instant executors; with real pools the OS schedules (sampled with skewed file sizes).',
		design='DESIGN.md §4 C13',
	),
	'C03': dict(
		category='exploration',
		technique='Hypothesis-generated forests x genome assignments x binary32 distance vectors (thresholds exactly at / one ulp off occurring distances) vs a dict model of the classification rules; metamorphic monotonicity',
		text='classify() in default mode, GenomeMatch and reportable_taxon are compared with a dict model (closest at minimum distance, first lineage taxon with threshold >= d, primary == closest iff predicted, next = nearest threshold-bearing taxon below the prediction / topmost if none, first reportable ancestor) over generated forests with threshold-less, non-monotone and unreportable taxa, genomes on internal taxa and distances exactly equal to thresholds or within 1e-8 of each other without being equal; increasing distance may only keep or coarsen a prediction. End-to-end worlds (query() on a materialised database, also on a file that holds a second genome set over the same genomes, taxa written root-first or leaf-first) are covered by the world-level cases.',
		note='Comparison d <= threshold is modelled exactly in binary64 (NumPy 1.26 semantics). One genuine defect found and repaired (next_taxon with a threshold-less genome taxon).',
		design='DESIGN.md §4 C03',
	),
	'C10': dict(
		category='exploration',
		technique='Hypothesis-generated forests/matches with ALL permutations of the reference order (n<=6) and of the matched-taxon list vs a set-level consensus model',
		text='For every generated case all reference orders (n <= 6; 200 drawn orders above) are classified in strict mode and consensus_taxon is run on all orders of the matched-taxon list; prediction, success/error flags, others-set, conflict warning (exactly the taxa strictly below the prediction) and primary match are compared with a set-level model, so order independence is checked by construction; a second phase edits the same live objects in place and re-checks; generated databases are also materialised with two different reference orders and queried in strict mode end to end - through the library and through `gambit query --strict` with genome files, a signature file and the standard output of a real process -, after which persisted genomes are moved to other taxa in memory (never flushed) and classified again.',
		note='Model: chain -> most specific; otherwise LCA of the minimal elements; no common ancestor -> failed. One genuine defect found and repaired (order-dependent consensus).',
		design='DESIGN.md §4 C10',
	),
	'C04': dict(
		category='exploration',
		technique='Hypothesis-generated genome sets x permuted/padded signature files x 4 id attributes x broken variants; join oracle = id->signature dict built by the harness',
		text='Databases are written with generated identifiers (nasty Unicode strings, 62-bit ints), unrelated signatures (incl. IDs that collide with another attribute or an outside genome) and drawn file order/names, the genome file in rollback-journal mode, WAL mode, or WAL mode with the true identifiers only in a hot write-ahead log beside a stale file; the directory under an awkward name (glob / URL metacharacters) beside decoy databases with similar names; after load_from_dir each genome must point at the signature stored under its own identifier and query() must report the bit-exact distance to that signature for every genome under several chunk sizes; every way of breaking completeness / id_attr (empty, unknown, or the attribute absent from the file) / directory contents must raise.',
		note='Oracle built from what the harness wrote (dict id -> array) and R-JAC. Row (primary-key) order, membership and signature order are independent of each other. Signature IDs within a file are unique (as the property quantifies).',
		design='DESIGN.md §4 C04',
	),
	'C09': dict(
		category='exploration',
		technique='Hypothesis-generated tie-heavy distance rows and tie-heavy databases vs sort-by-(distance, index) oracle; subprocess differential across NumPy CPU-dispatch settings and core counts',
		text='closest_genomes is compared with the (distance, reference order) prefix for generated rows with heavy ties (lengths up to 1200, all report_closest shapes, the minimum optionally occurring only at positions >= 257), for generated databases with identical/equidistant genomes (optionally sharing their file with a second genome set; one QueryParams object reused across databases of different size must come back unchanged; the JSON and CSV exports of every such result are parsed and the distance and matched taxon of each listed entry compared with the model), and the JSON/CSV outputs of real `gambit query` subprocesses are compared across NPY_DISABLE_CPU_FEATURES settings and -c values (byte-identical lists, CSV and JSON name the same closest genome).',
		note='CPU dispatch is varied on this sandbox CPU only. One genuine defect found and repaired (unstable argsort).',
		design='DESIGN.md §4 C09',
	),
	'C14': dict(
		category='exploration',
		technique='Hypothesis-generated pairs/triples of k-mer specs x the full grid of two-source command lines (in-process CLI); oracle: error/exit/no-output on mismatch, else distances under the shared spec (R-KMER -> R-JAC)',
		text='For generated database / query-file / reference-file / explicit-option parameter combinations (k up to 20, prefixes incl. reverse-complement pairs and lower-case spelling, the default 11/ATGAC given explicitly, database via -d or environment, signature files sharing one file name, an earlier run with other parameters on the same files) every command that brings two signature sources together (query -s; dist --qs x {--rs,--use-db,-r,--rl,--square}; dist {-q,--ql} x {--rs,--use-db}; -k without -p; signatures create --db-params with -k/-p) must fail with a reported error, non-zero status and untouched/absent output when any two specs differ, and otherwise produce exactly the distances obtained under the parameters of the pre-computed side.',
		note='Commands run in-process through click.testing.CliRunner on the working tree. One genuine defect found and repaired (query -s skipped the check).',
		design='DESIGN.md §4 C14',
	),
	'C16': dict(
		category='exploration',
		technique='Hypothesis-generated genome sets x 3x5 supply modes x options; CSV parse-back vs R-KMER -> R-JAC -> "%.4f" oracle; --square metamorphic equality',
		text='The dist command is run for generated query/reference genome sets (multi-contig, gzip, nested directories, file names with commas/quotes/blanks/non-ASCII or looking like comments / shell syntax, any extension, soft-masked sequence) in every combination of supply modes, with/without -k/-p (k up to 32), -c and progress, absolute or relative paths, list files used from a working directory holding decoy files or without a directory option, output over a longer pre-existing file, a database configured through the root option or the environment without being used, optionally after an earlier run on different content at the same paths; the CSV is parsed back and header, row labels and every cell are compared with labels derived from the file names / stored IDs and distances from the reference models; --square must be symmetric with zero diagonal and equal the full run on the same genomes.',
		note='File names exclude newline/NUL// and, for list files, leading/trailing blanks. In-process CLI via CliRunner.',
		design='DESIGN.md §4 C16',
	),
	'C08': dict(
		category='exploration',
		technique='Hypothesis-generated worlds x batch plans (order/multiset x channel x gzip x file names x -c x progress x format, plus API chunk sizes); metamorphic row equality across plans + predicted row from R-KMER -> R-JAC -> R-TAX',
		text='For each generated database and query set, 2-3 batch plans are executed (in-process CLI, csv/json/archive, positional / list-file / signature-file input, any order with duplicates (separate files or the very same path repeated), gzip, nested directories, nasty names, symbolic links named differently from their targets, -c 1..16, progress on/off, single/multi-member gzip, database via -d or GAMBIT_DB_PATH, output to a fresh file, over a longer pre-existing file, or to the standard output of a real sub-process, list files used from a working directory holding other genomes under the same relative names or without a directory option after a chdir; API with chunk sizes) and every output row must be present once per input in input order, carry the expected label and equal the model row of that genome - which makes it identical in every context; rows of the same genome are also compared directly across plans.',
		note='Process-pool scheduling under -c is sampled (C13 owns completion order at the API). Labels exclude newline/NUL//.',
		design='DESIGN.md §4 C08',
	),
	'C11': dict(
		category='exploration',
		technique='Hypothesis-generated real and synthetic QueryResults x 3 exporters; parse-back / field-by-field comparison with the results object, cross-format agreement, archive round trip (same and fresh session)',
		text='Result sets produced by real strict/non-strict queries on generated worlds (optionally on a file holding a second genome set over the same genomes) and synthetic result sets assembled from generated ClassifierResults (arbitrary Unicode labels incl. commas/quotes/LF/CRLF, warnings, errors, missing files, drawn params incl. chunksize None, naive and time-zone-aware timestamps and extra JSON) are exported as CSV, JSON and archive; CSV is parsed back cell by cell, JSON must be strict JSON carrying the same data and agree with the CSV, and the archive must read back equal (deep comparison and ==) on the same and on a fresh session, with several reader objects alive and the oldest one reading; exports are written to streams and, with exporter objects re-used for the life of the worker, to real file paths that are fresh or hold a longer older export (labels derived from undecodable file names included).',
		note='Lone CR is excluded from generated text (csv.writer with LF terminator cannot round-trip it; "newlines" read as LF/CRLF). Labels are str. One genuine defect found and repaired (archive with chunksize None unreadable).',
		design='DESIGN.md §4 C11',
	),
	'C17': dict(
		category='exploration',
		technique='Hypothesis-generated genome/signature sets incl. zero and tied distances x labels with Newick metacharacters; own Newick parser + UPGMA validity predicate (average-linkage identity, monotone heights, greedy validity) + own UPGMA when unique',
		text='The tree command (files, list file - also from a working directory holding decoy genomes under the same names, or without --ldir after a chdir -, signature file) output is parsed with an independent Newick parser and checked to be a rooted strictly binary ultrametric tree with exactly the input labels and non-negative branch lengths whose every internal node height equals the average R-JAC distance between its two child clusters (valid under any tie-breaking), with monotone heights and no cheaper available merge skipped; when merges are separated by a margin the merge sets and heights equal the harness\'s own O(n^3) UPGMA.',
		note='Numeric tolerance 1e-5 per branch (8 printed digits). Duplicate labels only structurally. One genuine defect found and repaired (integer IDs).',
		design='DESIGN.md §4 C17',
	),
	'C18': dict(
		category='exploration',
		technique='model-based generation of command/library-call histories (Hypothesis lists of steps interpreted against a fresh database copy); invariant after every step: sha256 of both files, nothing flushed, commit raises',
		text='Histories of 5..25 steps mixing every read-side command (query in all channels/formats, dist --use-db, signatures info/create --db-params, tree), failing commands, library queries with handles left open (optionally editing in place the arrays they were handed), ORM edits on each default session (attribute change, add, delete) (also one object both edited and deleted) followed by flush / autoflushing query / commit / rollback - none of which may even attempt a write -, and double opens of the signature file are run against a fresh copy of a generated database whose genome file is put into a drawn valid SQLite configuration (addressed through differently spelled paths; default, WAL, WAL with committed transactions still in the -wal file, a hot rollback journal left by a crashed writer, PERSIST, other page size, user_version, an older table layout, extra tables/indexes/views), interleaved with writable sessions on unrelated files and with another holder of an exclusive advisory lock on the signature file; after every step the sha256 and size of the .gdb and .gs must equal their initial values, the edited session\'s own connection must still show the original rows and commit() must have raised.',
		note='Only the bytes of the two database files are compared. In-process CLI via CliRunner. One genuine defect found and repaired (D10: a write-ahead log beside the genome file was checkpointed into it by read-side use).',
		design='DESIGN.md §4 C18',
	),
}

NOT_APPLICABLE = {}

ALL = [f'C{n:02d}' for n in range(1, 21)]


def main():
	checks = []
	for pid in ALL:
		if pid not in CHECKS:
			continue
		c = CHECKS[pid]
		checks.append(dict(
			property_id=pid,
			quick_cmd=f'{PY} run.py {pid} --tier quick',
			thorough_cmd=f'{PY} run.py {pid} --tier thorough',
			evidence_file=f'/verif/evidence/{pid}.json',
			replay_cmd_template=f'{PY} run.py {pid} --replay {{path}}',
			engine='pbt-harness',
			level_claimed=dict(category=c['category'], text=c['text'], design_ref=c['design']),
			level_note=c['note'],
			technique=c['technique'],
		))
	na = []
	for pid in ALL:
		if pid in CHECKS:
			continue
		na.append(dict(property_id=pid, reason=NOT_APPLICABLE.get(pid, 'not claimed yet: the generated-input check for this property is designed (DESIGN.md §4) but not yet built/registered')))
	manifest = dict(
		version=1,
		setup_cmd=f'{PY} -c "import hypothesis" 2>/dev/null || /venv/bin/pip install --no-index --find-links /opt/veriftools/wheels hypothesis; {PY} -m vlib.build',
		hooks=dict(
			guard='GAMBIT_VERIF',
			enable='no source hooks are needed: checks drive public entry points (executor=, omp_set_num_threads, CliRunner) of the working tree; native modules are rebuilt from the generated C by vlib/build.py when stale',
			baseline_off_cmd='cd /repo && /venv/bin/python -m pytest -ra -q -p no:cacheprovider --timeout=900 --continue-on-collection-errors',
			source_commits=[],
			add_only=True,
		),
		engines=[dict(
			name='pbt-harness',
			path='/verif/run.py',
			serves_properties=[c['property_id'] for c in checks],
			kind_free_text='Hypothesis 6.168 generators + complete enumeration of small finite sub-domains, sharded over 16 worker processes; a hash-selected sample of the generated cases of every check is run again in a fresh interpreter started with python -O / -OO, another string-hash seed or development mode; explicit reference-model / round-trip / metamorphic oracles per property; shrunk failures become replay files',
		)],
		checks=checks,
		notes='Every check: exit 0 = held on everything explored; exit 1 + "VIOLATION property=<id> replay=<path>"; exit 2 = harness error (never a VIOLATION). Seeds: VERIF_SEED. Known findings: /verif/KNOWN_FINDINGS.txt. Sensitivity: /verif/mutants (about 145 mutants incl. native and multi-site ones) and /verif/seeded (130 independently written breaking changes in seven rounds; DESIGN.md sections 9-10 record which check catches which).',
		not_applicable=na,
	)
	with open(os.path.join(VERIF, 'MANIFEST.json'), 'w') as f:
		json.dump(manifest, f, indent=1)
		f.write('\n')
	# validate
	try:
		import jsonschema
		jsonschema.validate(manifest, json.load(open('/root/.vp/MANIFEST.schema.json')))
		print('MANIFEST.json valid;', len(checks), 'checks,', len(na), 'not_applicable')
	except ImportError:
		print('MANIFEST.json written (jsonschema not importable here; validate with python3-vt)')


if __name__ == '__main__':
	main()
