#!/venv/bin/python
"""archive_seed.py <worktree> <seed-id> <property> <caught-by> <status> <needs...>
Copies patch.diff / demo.py / notes.md from <worktree>/_seed into /verif/seeded/<seed-id>/ and writes meta.json."""
import json, os, shutil, sys
wt, sid, prop, caught_by, status = sys.argv[1:6]
needs = ' '.join(sys.argv[6:])
dst = os.path.join('/verif/seeded', sid)
os.makedirs(dst, exist_ok=True)
for f in os.listdir(os.path.join(wt, '_seed')):
	if f.endswith(('.diff', '.py', '.md')):
		shutil.copy(os.path.join(wt, '_seed', f), os.path.join(dst, f))
meta = {
	'id': sid, 'property': prop, 'origin': 'written independently by a sub-agent that saw only the property text and a scratch worktree',
	'needs_to_manifest': needs,
	'confirmed': {
		'demo_unchanged_exit': 0, 'demo_changed_exit_nonzero': True, 'pinned_suite_542_pass_with_change': True,
		'how': f'tools/eval_seed.sh {wt} {prop}: git checkout -- src; demo.py (exit 0); git apply _seed/patch.diff; demo.py (exit != 0); '
		       f'tools/baseline.py --src {wt}/src (542/542 stable tests pass); VERIF_GAMBIT_SRC={wt}/src run.py <ID> --tier quick',
	},
	'checks_run': caught_by.split(','), 'result': status,
}
json.dump(meta, open(os.path.join(dst, 'meta.json'), 'w'), indent=1)
print('archived', dst)
