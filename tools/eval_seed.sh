#!/bin/bash
# usage: eval_seed.sh <worktree> <property> [more properties to run...]
# Confirms an independently written breaking change (patch in <worktree>/_seed/patch.diff) and runs our checks against it.
# Never uses git stash (the stash is shared between worktrees).
wt=$1; shift; props="$@"
V=${VERIF_DIR:-/verif}
tag=${EVAL_TAG:-cur}
apply_change() { git -C $wt checkout -q -- src && git -C $wt apply $wt/_seed/patch.diff || echo "APPLY FAILED"; }
revert_change() { git -C $wt checkout -q -- src; }
revert_change
echo "== demo on UNCHANGED code"; (cd $wt && PYTHONPATH=$wt/src timeout 1800 /venv/bin/python _seed/demo.py >/tmp/demo_unchanged.txt 2>&1; echo "exit=$?"; tail -2 /tmp/demo_unchanged.txt)
apply_change
echo "== demo on CHANGED code"; (cd $wt && PYTHONPATH=$wt/src timeout 1800 /venv/bin/python _seed/demo.py >/tmp/demo_changed.txt 2>&1; echo "exit=$?"; tail -3 /tmp/demo_changed.txt)
echo "== pinned test suite with the change"; /venv/bin/python $V/tools/baseline.py --src $wt/src | head -5
for p in $props; do
  echo "== check $p (quick) against the change"
  s=$(date +%s)
  VERIF_GAMBIT_SRC=$wt/src /venv/bin/python $V/run.py $p --tier quick > /tmp/seed_check_${tag}_$p.txt 2>&1; rc=$?
  e=$(date +%s)
  echo "rc=$rc $((e-s))s"; grep -E "^violation|^VIOLATION|HARNESS" /tmp/seed_check_${tag}_$p.txt | cut -c1-300 | head -6
done
