#!/venv/bin/python
"""Run the repository's pinned test suite and compare the passing set with /root/.vp/BASELINE.json.

usage: baseline.py [--src DIR]   (DIR: alternative gambit source root put first on PYTHONPATH;
                                  tests are still taken from /repo/tests)
exit 0 iff every test in stable_pass passes.
"""
import json, os, subprocess, sys, tempfile
import xml.etree.ElementTree as ET

def main():
	src = None
	if '--src' in sys.argv:
		src = sys.argv[sys.argv.index('--src') + 1]
	base = json.load(open('/root/.vp/BASELINE.json'))
	stable = set(base['stable_pass'])
	fd, xml = tempfile.mkstemp(suffix='.xml'); os.close(fd)
	env = dict(os.environ)
	if src:
		env['PYTHONPATH'] = src + os.pathsep + env.get('PYTHONPATH', '')
	cmd = ['/venv/bin/python', '-m', 'pytest', '-ra', '-q', '-p', 'no:cacheprovider', '--timeout=900',
	       '--continue-on-collection-errors', f'--junitxml={xml}']
	p = subprocess.run(cmd, cwd='/repo', env=env, stdout=subprocess.PIPE, stderr=subprocess.STDOUT, text=True)
	passed = set()
	for tc in ET.parse(xml).getroot().iter('testcase'):
		if not any(ch.tag in ('failure', 'error', 'skipped') for ch in tc):
			passed.add(f"{tc.get('classname')}::{tc.get('name')}")
	os.unlink(xml)
	# classname in junit is dotted module + class; BASELINE uses module::name or module.Class::name
	missing = sorted(stable - passed)
	print(f'stable_pass={len(stable)} passed_now={len(passed)} missing={len(missing)}')
	for m in missing[:30]:
		print('  MISSING', m)
	if missing:
		print(p.stdout[-3000:])
	return 1 if missing else 0

if __name__ == '__main__':
	sys.exit(main())
