#!/bin/bash
# usage: eval_seed_onarrival.sh <snapshot of /verif> <worktree> <ID...> : quick checks of an OLDER /verif against a seeded change (already applied in the worktree)
snap=$1; wt=$2; shift; shift
for p in "$@"; do
  s=$(date +%s)
  (cd $snap && VERIF_GAMBIT_SRC=$wt/src /venv/bin/python run.py $p --tier quick > /tmp/seed_check_old_$(basename $wt)_$p.txt 2>&1); rc=$?
  e=$(date +%s)
  echo "on-arrival $p vs $(basename $wt): rc=$rc $((e-s))s"; grep -E "^violation|HARNESS" /tmp/seed_check_old_$(basename $wt)_$p.txt | cut -c1-300 | head -4
done
