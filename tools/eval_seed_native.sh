#!/bin/bash
# usage: eval_seed_native.sh <worktree> <module> <property> [...]   (seed left APPLIED in the worktree: .c edited + .so rebuilt)
wt=$1; mod=$2; shift 2; props="$@"
V=/verif; cy=$wt/src/gambit/_cython; so=$mod.cpython-312-x86_64-linux-gnu.so
mkdir -p /tmp/seedsave && cp $cy/$mod.c /tmp/seedsave/$mod.c.changed && cp $cy/$so /tmp/seedsave/$so.changed
echo "== demo on CHANGED code"; (cd $wt && PYTHONPATH=$wt/src timeout 1800 /venv/bin/python _seed/demo.py >/tmp/demo_changed.txt 2>&1; echo "exit=$?"; tail -3 /tmp/demo_changed.txt)
echo "== pinned test suite with the change"; /venv/bin/python $V/tools/baseline.py --src $wt/src | head -5
for p in $props; do
  echo "== check $p (quick) against the change"
  VERIF_GAMBIT_SRC=$wt/src /venv/bin/python $V/run.py $p --tier quick > /tmp/seed_check_$p.txt 2>&1; echo "rc=$?"; grep -E "^violation|^VIOLATION|HARNESS" /tmp/seed_check_$p.txt | cut -c1-300 | head -6
done
cp /repo/src/gambit/_cython/$mod.c $cy/$mod.c; cp /repo/src/gambit/_cython/$so $cy/$so; git -C $wt stash list >/dev/null
(cd $wt && git diff --quiet -- src || (git diff -- src > /tmp/seedsave/py.diff; git checkout -q -- src))
echo "== demo on UNCHANGED code"; (cd $wt && PYTHONPATH=$wt/src timeout 1800 /venv/bin/python _seed/demo.py >/tmp/demo_unchanged.txt 2>&1; echo "exit=$?"; tail -2 /tmp/demo_unchanged.txt)
cp /tmp/seedsave/$mod.c.changed $cy/$mod.c; cp /tmp/seedsave/$so.changed $cy/$so; touch $cy/$so
[ -s /tmp/seedsave/py.diff ] && (cd $wt && git apply /tmp/seedsave/py.diff; rm -f /tmp/seedsave/py.diff)
