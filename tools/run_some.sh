#!/bin/bash
# usage: run_some.sh <tier> <seed> <ID...>   - like run_all.sh for the listed checks, in the given order
tier=${1:-quick}; seed=${2:-0}; shift 2
cd "$(dirname "$0")/.."
for id in "$@"; do
  s=$(date +%s)
  out=$(VERIF_SEED=$seed /venv/bin/python run.py $id --tier $tier 2>&1); rc=$?
  e=$(date +%s)
  echo "$id rc=$rc $((e-s))s $(echo "$out" | head -1 | cut -c1-140)"
  if [ $rc -ne 0 ]; then echo "$out" | grep -v '^\[' | head -8; fi
done
