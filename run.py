#!/venv/bin/python
"""Single entry point:  run.py <ID> --tier quick|thorough   |   run.py <ID> --replay <file>"""
import os
import sys

sys.path.insert(0, os.path.dirname(os.path.abspath(__file__)))
from vlib.harness import main

if __name__ == '__main__':
	sys.exit(main())
