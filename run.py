#!/venv/bin/python
"""Single entry point:  run.py <ID> --tier quick|thorough   |   run.py <ID> --replay <file>"""
import os
import sys

sys.path.insert(0, os.path.dirname(os.path.abspath(__file__)))
from vlib.harness import main

if __name__ == '__main__':
	# exit status 1 is reserved for "violation found": anything that goes wrong in the machinery itself (including a reader
	# that closed our standard output early) must end with status 2, never with Python's default status 1 for an uncaught exception
	try:
		rc = main()
		try:
			sys.stdout.flush()
		except BrokenPipeError:
			# reader went away (e.g. `| head -1`): the verdict is unaffected
			try:
				sys.stdout = open(os.devnull, 'w')
			except OSError:
				pass
	except SystemExit:
		raise
	except BrokenPipeError:
		try:
			sys.stdout = open(os.devnull, 'w')
		except OSError:
			pass
		print('HARNESS-ERROR: standard output was closed by the reader before the verdict could be printed', file=sys.stderr)
		rc = 2
	except BaseException:
		import traceback
		traceback.print_exc()
		print('HARNESS-ERROR: uncaught exception in the harness', file=sys.stderr)
		rc = 2
	sys.exit(rc)
