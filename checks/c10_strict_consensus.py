"""C10 — strict classification reports an order-independent consensus of all matches."""

import itertools
import random

from hypothesis import strategies as st

from vlib.harness import Violation
from vlib.refmodel.taxonomy import Forest
from vlib.refmodel import jaccard as J
from vlib import taxgen

ID = 'C10'
LEVEL = 'exploration'
RULE = ('Generated: forests as in C03 (three-level shapes {species, its subspecies, sibling species} and several roots boosted), 1..7 '
        'genomes with binary32 distances so that 0..5 distinct taxa are matched at mixed depths. For every case ALL permutations of the '
        'reference order when n <= 6 (<= 720), else 200 drawn ones, are classified in strict mode, and consensus_taxon is called on all '
        'permutations of the matched-taxon list (<= 6 taxa, else 200). Oracle R-TAX (set-level model): matched taxon per genome = first '
        'lineage taxon with threshold >= d; consensus = most specific if the matched taxa form a chain, else LCA of the most specific '
        'ones, else none + failed; for every order: same prediction, comparable with every matched taxon, "others" = matched taxa strictly '
        'below the prediction, a warning naming exactly those iff that set is non-empty, primary match at/below the prediction with the '
        'minimum distance among such genomes. Also end to end (1 case in 25): a generated database materialised with two different signature-file orders and queried in strict mode must give the model consensus and identical predictions. One evaluation = one (case, order); non-trivial = >= 2 distinct matched taxa; distinct '
        'by case hash x order.')
ASSUMPTIONS = ['distance/threshold comparison is exact in binary64 (NumPy 1.26 semantics for np.float32 <= float)',
               'in the no-common-ancestor case only prediction None / failed flag / error / no primary match are asserted (statement is silent on the rest)']
DEADLINE_S = {'quick': 240, 'thorough': 2400}


def budget(tier):
	return {'quick': 8000, 'thorough': 100000}[tier]


def run_world_strict(case, ctx):
	"""End to end: the same database with two different signature-file (= reference) orders, queried in strict mode."""
	import numpy as np
	from gambit.query import query
	from vlib import world as Wd
	preds = []
	classes = set(['world_strict'])
	nt = False
	for variant, seed in (('a', case['world'].get('sig_perm_seed')), ('b', case['perm2'])):
		w = dict(case['world'])
		w['sig_perm_seed'] = seed
		W = Wd.get_world(ctx, w, 'c10world')
		try:
			db = W.load_db()
		except Exception as e:
			raise Violation('exception', f'load_from_dir raised {type(e).__name__}: {e}', case)
		try:
			qs = [np.array(x, dtype=W.dtype) for x in W.query_sigs]
			try:
				res = query(db, qs, classify_strict=True)
			except Exception as e:
				raise Violation('exception', f'query(strict) raised {type(e).__name__}: {e}', case)
			out = []
			F = W.forest
			for qi, item in enumerate(res.items):
				cr = item.classifier_result
				matched = [F.match(W.w['genomes'][j]['taxon'], W.dist(qi, j)) for j in range(len(W.ref_sigs))]
				M = {m for m in matched if m is not None}
				cons, others, ok = F.consensus(M)
				got = None if cr.predicted_taxon is None else cr.predicted_taxon.key
				want = None if cons is None else f'world/t{cons}'
				if got != want or cr.success != ok or bool(cr.error) != (not ok):
					raise Violation('world_consensus', f'variant {variant} (reference order {W.ref_order}) query {qi}: predicted {got} success={cr.success}, '
					                f'expected {want} success={ok}; matched taxa per genome {matched}', case)
				if ok and cons is not None:
					pm = cr.primary_match
					jj = [f['key'] for f in W.genome_fields].index(pm.genome.key) if pm is not None else None
					cand = [W.dist(qi, j) for j in range(len(matched)) if matched[j] is not None and F.is_ancestor_or_self(cons, matched[j])]
					if pm is None or matched[jj] is None or not F.is_ancestor_or_self(cons, matched[jj]) or float(pm.distance) != min(cand):
						raise Violation('world_primary', f'variant {variant} query {qi}: primary match genome {jj} at {None if pm is None else float(pm.distance)!r} '
						                f'is not a nearest genome at/below the prediction {cons}', case)
				out.append((got, cr.success, sorted(cr.warnings)[:0]))
				if len(M) >= 2:
					nt = True
				if others:
					classes.add('world_fork')
				if not ok:
					classes.add('world_no_common_ancestor')
			preds.append(out)
			if variant == 'a' and case.get('cli'):
				# the same strict classification through the command line: genome files and a pre-computed signature file,
				# output to a file (in process) and to the standard output of a real process with the default progress display
				import json as _json, os as _os, shutil as _sh
				from vlib import clihelp as H
				from vlib.cli import run_cli, run_cli_subprocess
				cd = ctx.fresh_dir('c10cli')
				try:
					nq = len(W.query_sigs)
					qpaths = H.write_genomes(_os.path.join(cd, 'q'), W.query_contigs, [f'q{i}.fasta' for i in range(nq)])
					qsig = _os.path.join(cd, 'q.gs')
					H.write_sigfile(qsig, W.query_contigs, W.k, W.prefix, [f'qid{i}' for i in range(nq)])
					want_keys = []
					for qi in range(nq):
						matched = [F.match(W.w['genomes'][j]['taxon'], W.dist(qi, j)) for j in range(len(W.ref_sigs))]
						cons, others, ok = F.consensus({m for m in matched if m is not None})
						rep = F.reportable(cons) if cons is not None else None
						want_keys.append(None if rep is None else f'world/t{rep}')
					runs = [('files', qpaths, False), ('sigfile', ['-s', qsig], False)]
					if ctx.cache.get('c10_stdout', 0) < (2 if ctx.tier == 'quick' else 30):
						ctx.cache['c10_stdout'] = ctx.cache.get('c10_stdout', 0) + 1
						runs.append(('files_stdout', qpaths, True))
					for tag, inp, to_stdout in runs:
						outp = _os.path.join(cd, f'{tag}.json')
						if to_stdout:
							r = run_cli_subprocess(['-d', W.dir, 'query', '--strict', '-f', 'json'] + inp)
							text = r.stdout
						else:
							r = run_cli(['-d', W.dir, 'query', '--strict', '-f', 'json', '-o', outp, '--no-progress'] + inp)
							text = open(outp, encoding='utf-8').read() if _os.path.exists(outp) else ''
						if r.exit_code != 0:
							raise Violation('cli_failed', f'gambit query --strict ({tag}) exited {r.exit_code}: {r.stderr[-300:]}', case)
						try:
							items = _json.loads(text)['items']
						except Exception as e:
							raise Violation('cli_output_invalid', f'gambit query --strict -f json ({tag}): output is not the JSON document: {type(e).__name__}: {e}', case)
						got_keys = [None if it['predicted_taxon'] is None else it['predicted_taxon']['key'] for it in items]
						if got_keys != want_keys:
							raise Violation('cli_strict', f'gambit query --strict ({tag}): reported taxa {got_keys}, strict consensus model gives {want_keys}', case)
					classes.add('cli_strict')
				finally:
					_sh.rmtree(cd, ignore_errors=True)
			if variant == 'b' and case.get('reassign') is not None:
				# the loaded (persisted) objects are edited in memory - some genomes are moved to another taxon, never flushed -
				# and classified again directly: the result must follow the objects as they are now
				from gambit.classify import classify
				gen = list(db.genomes)
				keys = [f['key'] for f in W.genome_fields]
				idx = [keys.index(g.key) for g in gen]
				taxa_by_key = {t.key: t for t in db.genomeset.taxa}
				ntax = len(W.taxa)
				taxon_of = {j: W.w['genomes'][j]['taxon'] for j in range(len(keys))}
				for a, b in case['reassign']:
					i = a % len(gen)
					t_new = b % ntax
					gen[i].taxon = taxa_by_key[f'world/t{t_new}']
					taxon_of[idx[i]] = t_new
				classes.add('persisted_genomes_reassigned')
				for qi in range(len(qs)):
					dists = np.array([W.dist(qi, idx[i]) for i in range(len(gen))], dtype=np.float32)
					try:
						cr = classify(gen, dists, strict=True)
					except Exception as e:
						raise Violation('exception', f'classify(strict) on edited objects raised {type(e).__name__}: {e}', case)
					matched = [F.match(taxon_of[idx[i]], W.dist(qi, idx[i])) for i in range(len(gen))]
					M = {m for m in matched if m is not None}
					cons, others, ok = F.consensus(M)
					got = None if cr.predicted_taxon is None else cr.predicted_taxon.key
					want = None if cons is None else f'world/t{cons}'
					if got != want or cr.success != ok:
						raise Violation('world_reassigned', f'after moving genomes {case["reassign"]} (genome index, new taxon) in memory, query {qi}: predicted {got} '
						                f'success={cr.success}, expected {want} success={ok}; matched taxa per genome (database order) {matched}', case)
		finally:
			try:
				db.signatures.close(); db.session.close(); db.session.get_bind().dispose()
			except Exception:
				pass
	if preds[0] != preds[1]:
		raise Violation('world_order_dependent', f'strict predictions differ between two reference orders of the same database: {preds[0]} vs {preds[1]}', case)
	return {'evals': 2, 'nontrivial_count': 2 if nt else 0, 'nontrivial': nt, 'classes': sorted(classes)}


def run_case(case, ctx, _objs=None):
	if case['kind'] == 'world_strict':
		return run_world_strict(case, ctx)
	import numpy as np
	from gambit.classify import classify, consensus_taxon

	dists = [taxgen.f32(d) for d in case['dists']]
	genome_taxa = [g % len(case['taxa']) for g in case['genomes']][:len(dists)]
	dists = dists[:len(genome_taxa)]
	n = len(dists)
	taxa = taxgen.resolve_thresholds(case['taxa'], dists)
	for i, t in enumerate(taxa):
		t['name'] = f'Tx{i:02d}q'
	F = Forest(taxa)
	if _objs is None:
		tobjs, gobjs = taxgen.build_orm(taxa, genome_taxa)
	else:
		# second phase: the SAME live objects, edited in place to the new forest (a result must reflect the forest as it is now)
		tobjs, gobjs = _objs
		for i, t in enumerate(taxa):
			tobjs[i].distance_threshold = t['thr']
			tobjs[i].report = bool(t['report'])
			tobjs[i].parent = None if t['parent'] is None else tobjs[t['parent']]
			if t.get('name') is not None:
				tobjs[i].name = t['name']
	tindex = {id(t): i for i, t in enumerate(tobjs)}
	gindex = {id(g): i for i, g in enumerate(gobjs)}
	ti = lambda o: None if o is None else tindex.get(id(o), 'foreign')

	matched = [F.match(genome_taxa[j], dists[j]) for j in range(n)]
	M = {m for m in matched if m is not None}
	exp_cons, exp_others, ok = F.consensus(M)
	dmin = min(dists)

	if n <= 6:
		orders = list(itertools.permutations(range(n)))
	else:
		rnd = random.Random(case.get('perm_seed', 0))
		orders = [tuple(range(n)), tuple(reversed(range(n)))] + [tuple(rnd.sample(range(n), n)) for _ in range(198)]

	for order in orders:
		one = dict(case)
		one['order'] = list(order)
		gs = [gobjs[j] for j in order]
		ds = np.array([dists[j] for j in order], dtype=np.float32)
		try:
			res = classify(gs, ds, strict=True)
		except Exception as e:
			raise Violation('exception', f'classify(strict) raised {type(e).__name__}: {e} for order {list(order)}', one)
		pred = ti(res.predicted_taxon)
		ctx_msg = f'order {list(order)}, matched taxa per genome {matched}, lineages {[F.lineage(m) for m in sorted(M)]}'
		if J.float_to_bits(res.closest_match.distance) != J.float_to_bits(dmin):
			raise Violation('closest_not_min', f'closest match distance {float(res.closest_match.distance)!r} != min {dmin!r}', one)
		if not M:
			if pred is not None or res.primary_match is not None or not res.success:
				raise Violation('no_matches', f'no genome matches but prediction={pred} primary={res.primary_match} success={res.success}', one)
			continue
		if not ok:
			if pred is not None or res.success or not res.error or res.primary_match is not None:
				raise Violation('no_common_ancestor', f'matched taxa share no ancestor but prediction={pred} success={res.success} '
				                f'error={res.error!r} primary={"set" if res.primary_match else None}; {ctx_msg}', one)
			continue
		if pred != exp_cons:
			raise Violation('consensus', f'predicted taxon {pred}, expected consensus {exp_cons} of matched set {sorted(M)}; {ctx_msg}', one)
		if not res.success or res.error:
			raise Violation('flagged_failed', f'consensus exists but success={res.success} error={res.error!r}', one)
		for m in M:
			if not F.comparable(pred, m):
				raise Violation('not_comparable', f'prediction {pred} is unrelated to matched taxon {m}', one)
		names_others = {taxa[o]['name'] for o in exp_others}
		all_names = {t['name'] for t in taxa}
		mentioned = set()
		for w in res.warnings:
			mentioned |= {nm for nm in all_names if nm in w}
		if exp_others:
			if not any(all(nm in w for nm in names_others) for w in res.warnings):
				raise Violation('warning_missing', f'matched taxa {sorted(exp_others)} lie strictly below prediction {pred} but no warning names them all '
				                f'(warnings {res.warnings}); {ctx_msg}', one)
			if mentioned - names_others:
				raise Violation('warning_wrong_taxa', f'warning names taxa {sorted(mentioned - names_others)} that are not below the prediction', one)
		elif mentioned:
			raise Violation('warning_spurious', f'no matched taxon lies below prediction {pred} but a warning names {sorted(mentioned)}: {res.warnings}', one)
		pm = res.primary_match
		if pm is None:
			raise Violation('primary_missing', f'prediction {pred} made but no primary match', one)
		pj = gindex.get(id(pm.genome))
		if pj is None or matched[pj] is None or not F.is_ancestor_or_self(pred, matched[pj]):
			raise Violation('primary_not_below', f'primary match genome {pj} (matched taxon {None if pj is None else matched[pj]}) is not at/below prediction {pred}', one)
		cand = [dists[j] for j in range(n) if matched[j] is not None and F.is_ancestor_or_self(pred, matched[j])]
		if float(pm.distance) != float(min(cand)) or float(pm.distance) != float(dists[pj]):
			raise Violation('primary_not_nearest', f'primary match distance {float(pm.distance)!r}, nearest qualifying genome is at {min(cand)!r}', one)
		if ti(pm.matched_taxon) != matched[pj]:
			raise Violation('primary_matched_taxon', f'primary match matched_taxon {ti(pm.matched_taxon)} != {matched[pj]}', one)

	# consensus_taxon directly on permutations of the matched-taxon list
	ml = sorted(M)
	if len(ml) <= 6:
		torders = list(itertools.permutations(ml))
	else:
		rnd = random.Random(case.get('perm_seed', 0) + 1)
		torders = [tuple(rnd.sample(ml, len(ml))) for _ in range(200)]
	for to in torders:
		one = dict(case)
		one['taxon_order'] = list(to)
		try:
			c, others = consensus_taxon([tobjs[i] for i in to])
		except Exception as e:
			raise Violation('exception', f'consensus_taxon raised {type(e).__name__}: {e}', one)
		if not M:
			if c is not None or others:
				raise Violation('consensus_empty', 'consensus of nothing is not (None, {})', one)
			continue
		if not ok:
			if c is not None:
				raise Violation('consensus_fn', f'consensus_taxon({list(to)}) = {ti(c)}, expected None (no common ancestor)', one)
			continue
		if ti(c) != exp_cons or {ti(o) for o in others} != exp_others:
			raise Violation('consensus_fn', f'consensus_taxon({list(to)}) = ({ti(c)}, {sorted(ti(o) for o in others)}), expected '
			                f'({exp_cons}, {sorted(exp_others)}); lineages {[F.lineage(m) for m in ml]}', one)
	extra_evals = 0
	edited = False
	if case.get('edits') and _objs is None:
		taxa2 = [dict(t) for t in case['taxa']]
		for e in case['edits']:
			i = e['i'] % len(taxa2)
			if e.get('thr') is not None:
				taxa2[i]['thr'] = e['thr']
			if e.get('parent') is not None and i > 0:
				taxa2[i]['parent'] = None if e['parent'] < 0 else e['parent'] % i      # parents keep smaller indices: no cycles
		case2 = dict(case)
		case2['taxa'] = taxa2
		case2.pop('edits')
		r2 = run_case(case2, ctx, _objs=(tobjs, gobjs))
		extra_evals = r2.get('evals', 0)
		edited = True
	classes = ['edited_in_place_then_reclassified'] if edited else []
	if not M:
		classes.append('no_matches')
	elif not ok:
		classes.append('no_common_ancestor')
	elif not exp_others and len(M) >= 2:
		classes.append('chain')
	elif exp_others:
		classes.append('fork')
		minimal = {t for t in M if not any(o != t and F.is_ancestor_or_self(t, o) for o in M)}
		if exp_others - minimal:
			classes.append('fork+deeper')
	classes.append(f'matched={min(len(M), 5)}')
	classes.append('orders=all' if n <= 6 else 'orders=200')
	nt = len(M) >= 2
	return {'evals': len(orders) + len(torders) + extra_evals, 'nontrivial_count': (len(orders) + len(torders) + extra_evals) if nt else 0, 'nontrivial': nt, 'classes': classes}


@st.composite
def gen_case(draw, tier):
	if draw(st.integers(0, 24)) == 24:
		from vlib import world as Wd
		wthr = st.one_of(st.just({'kind': 'none'}), st.floats(0.5, 1).map(lambda v: {'kind': 'val', 'v': v}), st.just({'kind': 'val', 'v': 1.0}),
		                 st.builds(lambda i, k: {'kind': k, 'i': i}, st.integers(0, 60), st.sampled_from(['dist', 'dist_up', 'dist_down32'])))
		return {'kind': 'world_strict', 'world': draw(Wd.world(max_refs=7, min_refs=2, max_queries=3, nasty_names=False, thr=wthr)),
		        'perm2': draw(st.integers(1001, 2000)), 'cli': draw(st.booleans()),
		        'reassign': draw(st.one_of(st.none(), st.lists(st.tuples(st.integers(0, 6), st.integers(0, 13)).map(list), min_size=1, max_size=3)))}
	thr = st.one_of(
		st.just({'kind': 'none'}),
		st.floats(0.3, 1).map(lambda v: {'kind': 'val', 'v': v}),
		st.floats(0, 1).map(lambda v: {'kind': 'val', 'v': v}),
		st.builds(lambda i, k: {'kind': k, 'i': i}, st.integers(0, 30), st.sampled_from(['dist', 'dist_up', 'dist_down32'])),
		st.just({'kind': 'val', 'v': 1.0}),
	)
	taxa = draw(taxgen.forest(max_taxa=12, thr=thr))
	ng = draw(st.integers(1, 7))
	dists = draw(st.lists(taxgen.DIST, min_size=ng, max_size=ng))
	genomes = draw(st.lists(st.integers(0, len(taxa) - 1), min_size=ng, max_size=ng))
	edits = draw(st.one_of(st.none(), st.none(), st.lists(st.fixed_dictionaries({'i': st.integers(0, 20), 'thr': st.one_of(st.none(), thr), 'parent': st.one_of(st.none(), st.integers(-1, 20))}), min_size=1, max_size=3)))
	return {'kind': 'strict', 'taxa': taxa, 'genomes': genomes, 'dists': dists, 'perm_seed': draw(st.integers(0, 1000)), 'edits': edits}


def strategy(tier):
	return gen_case(tier)
