"""C07 — k-mer/index conversion is the base-4 bijection, consistent with revcomp."""

import itertools

from hypothesis import strategies as st

from vlib.harness import Violation
from vlib.refmodel import kmer as R

ID = 'C07'
LEVEL = 'exploration'
RULE = ('Exhaustive: every k-mer over ACGT for k=1..8 (in blocks), every byte string of length 0..2 over 0..255, '
        'boundary k-mers (all-A, all-T, single T at each position, all-ACGT strings of length 33..40) for k up to 40. '
        'Generated: k-mers of length 9..32 in random case with optional near-miss byte, random indices < 4^k, random byte '
        'strings <= 200 for revcomp. Oracle: Python-int positional arithmetic and a 256-entry complement table. '
        'Every enumerated element is distinct by construction; a generated case is non-trivial when it has k >= 9 '
        'or length >= 3 (distinct by hash).')
RULE += ' Further: k as NumPy integer for every k; first calls of fresh interpreters (plain, -O, -OO, -X dev) incl. over-long k-mers; the conversions called from 2-8 Python threads at once.'
ASSUMPTIONS = ['index_to_kmer is only exercised with 0 <= index < 4^k (the domain of the bijection)']
ENUMERATED = ['all 4^k k-mers for k=1..8 (87380): encode, decode, case folding, rc index, revcomp involution',
              'all byte strings of length 0..2 (65793): accepted iff all bytes in ACGTacgt; revcomp equals byte model',
              'boundary k-mers for k=1..32 and all-letter strings of length 33..40 (rejected)']
DEADLINE_S = {'quick': 200, 'thorough': 900}


def _g():
	import gambit.kmers as gk
	from gambit.seq import revcomp
	return gk, revcomp


def enum_cases(tier):
	for k in range(1, 9):
		free = min(k, 5)
		for head in itertools.product('ACGT', repeat=k - free):
			yield {'kind': 'kmer_block', 'k': k, 'head': ''.join(head)}
	yield {'kind': 'bytes_block', 'first': None}
	for b in range(256):
		yield {'kind': 'bytes_block', 'first': b}
	for k in range(1, 41):
		yield {'kind': 'boundary', 'k': k}


def _check_valid_kmer(x: bytes, gk, revcomp, variants=True):
	"""x: upper-case k-mer over ACGT, 1 <= k <= 32."""
	k = len(x)
	exp = R.ref_index(x)
	got = gk.kmer_to_index(x)
	if got != exp:
		raise Violation('encode', f'kmer_to_index({x!r}) = {got}, positional code is {exp}', {'kind': 'one_kmer', 'kmer': x.decode()})
	back = gk.index_to_kmer(exp, k)
	if back != x:
		raise Violation('decode', f'index_to_kmer({exp}, {k}) = {back!r}, expected {x!r}', {'kind': 'one_kmer', 'kmer': x.decode()})
	rc = R.ref_revcomp(x)
	got_rc = revcomp(x)
	if got_rc != rc:
		raise Violation('revcomp', f'revcomp({x!r}) = {got_rc!r}, expected {rc!r}', {'kind': 'one_kmer', 'kmer': x.decode()})
	if revcomp(got_rc) != x:
		raise Violation('revcomp_involution', f'revcomp(revcomp({x!r})) != input', {'kind': 'one_kmer', 'kmer': x.decode()})
	got_irc = gk.kmer_to_index_rc(x)
	if got_irc != R.ref_index(rc) or got_irc != gk.kmer_to_index(got_rc):
		raise Violation('encode_rc', f'kmer_to_index_rc({x!r}) = {got_irc}, index of reverse complement is {R.ref_index(rc)}',
		                {'kind': 'one_kmer', 'kmer': x.decode()})
	if variants:
		lo = x.lower()
		mixed = bytes(b + 32 if i % 2 else b for i, b in enumerate(x))
		for v in (lo, mixed):
			if gk.kmer_to_index(v) != exp or gk.kmer_to_index_rc(v) != got_irc:
				raise Violation('case_fold', f'case variant {v!r} of {x!r} encodes differently', {'kind': 'one_kmer', 'kmer': v.decode()})
			rv = revcomp(v)
			if rv != R.ref_revcomp(v):
				raise Violation('revcomp_case', f'revcomp({v!r}) = {rv!r}, expected {R.ref_revcomp(v)!r}', {'kind': 'one_kmer', 'kmer': v.decode()})
		if gk.kmer_to_index(x.decode('ascii')) != exp or gk.kmer_to_index(bytearray(x)) != exp:
			raise Violation('encode_types', f'str/bytearray input of {x!r} encodes differently', {'kind': 'one_kmer', 'kmer': x.decode()})
		from Bio.Seq import Seq
		import numpy as _np
		if gk.kmer_to_index(Seq(x)) != exp or gk.kmer_to_index_rc(Seq(x.decode())) != got_irc or gk.kmer_to_index_rc(x.decode('ascii').lower()) != got_irc:
			raise Violation('encode_types', f'Bio.Seq / str input of {x!r} encodes differently', {'kind': 'one_kmer', 'kmer': x.decode()})
		if k <= 31 and gk.index_to_kmer(_np.int64(exp), _np.int32(k)) != x:
			raise Violation('decode_types', f'index_to_kmer with NumPy integer arguments differs for {x!r}', {'kind': 'one_kmer', 'kmer': x.decode()})
		if gk.index_to_kmer(_np.uint64(exp), k) != x:
			raise Violation('decode_types', f'index_to_kmer with a NumPy uint64 index differs for {x!r}', {'kind': 'one_kmer', 'kmer': x.decode()})
		# k itself as a NumPy integer (KmerSpec.k of a specification read from a signature file is a numpy.int64), for every k up to 32
		for kt in (_np.int64, _np.uint8, _np.intp):
			try:
				ok = gk.index_to_kmer(exp, kt(k)) == x and gk.index_to_kmer(_np.uint64(exp), kt(k)) == x
			except Exception as e:
				raise Violation('decode_types', f'index_to_kmer({exp}, {kt.__name__}({k})) raised {type(e).__name__}: {e}', {'kind': 'one_kmer', 'kmer': x.decode()})
			if not ok:
				raise Violation('decode_types', f'index_to_kmer with k given as {kt.__name__} differs for {x!r}', {'kind': 'one_kmer', 'kmer': x.decode()})


def _expect_reject(s: bytes, gk, why):
	for name in ('kmer_to_index', 'kmer_to_index_rc'):
		f = getattr(gk, name)
		try:
			r = f(s)
		except ValueError:
			continue
		except Exception as e:
			raise Violation('reject_type', f'{name}({s!r}) raised {type(e).__name__} instead of ValueError ({why})',
			                {'kind': 'one_bytes', 'data': s.decode('latin-1')})
		raise Violation('not_rejected', f'{name}({s!r}) returned {r} instead of raising ({why})',
		                {'kind': 'one_bytes', 'data': s.decode('latin-1')})


def _check_bytes(s: bytes, gk, revcomp):
	"""Arbitrary byte string of length <= 32: accept iff all bytes are nucleotides; revcomp = byte model."""
	exp = R.ref_index(s)
	rc = revcomp(s)
	if rc != R.ref_revcomp(s):
		raise Violation('revcomp_bytes', f'revcomp({s!r}) = {rc!r}, expected {R.ref_revcomp(s)!r}', {'kind': 'one_bytes', 'data': s.decode('latin-1')})
	if revcomp(rc) != s:
		raise Violation('revcomp_involution', f'revcomp(revcomp({s!r})) != input', {'kind': 'one_bytes', 'data': s.decode('latin-1')})
	if len(s) == 0 or len(s) > 32:
		return
	if exp is None:
		_expect_reject(s, gk, 'contains a non-ACGT byte')
	else:
		got = gk.kmer_to_index(s)
		if got != exp:
			raise Violation('encode', f'kmer_to_index({s!r}) = {got}, positional code is {exp}', {'kind': 'one_bytes', 'data': s.decode('latin-1')})
		got_rc = gk.kmer_to_index_rc(s)
		if got_rc != R.ref_index(R.ref_revcomp(s)):
			raise Violation('encode_rc', f'kmer_to_index_rc({s!r}) = {got_rc}', {'kind': 'one_bytes', 'data': s.decode('latin-1')})


def run_case(case, ctx):
	gk, revcomp = _g()
	kind = case['kind']
	if kind == 'kmer_block':
		k = case['k']
		head = case['head'].encode()
		n = 0
		seen = set()
		for tail in itertools.product(b'ACGT', repeat=k - len(head)):
			x = head + bytes(tail)
			_check_valid_kmer(x, gk, revcomp)
			seen.add(gk.kmer_to_index(x))
			n += 1
		base = (R.ref_index(head) or 0) * 4 ** (k - len(head))
		if seen != set(range(base, base + n)):
			raise Violation('bijection', f'k={k} head={head!r}: indices are not exactly {base}..{base + n - 1}')
		return {'evals': n, 'nontrivial_count': n, 'classes': [f'k={k}']}
	if kind == 'bytes_block':
		n = 0
		if case['first'] is None:
			_check_bytes(b'', gk, revcomp)
			n += 1
			for b in range(256):
				_check_bytes(bytes([b]), gk, revcomp)
				n += 1
		else:
			for b in range(256):
				_check_bytes(bytes([case['first'], b]), gk, revcomp)
				n += 1
		return {'evals': n, 'nontrivial_count': n, 'classes': ['bytes_len<=2']}
	if kind == 'boundary':
		k = case['k']
		n = 0
		cands = [b'A' * k, b'T' * k, b'C' * k, b'G' * k]
		cands += [b'A' * i + b'T' + b'A' * (k - i - 1) for i in range(k)]
		cands += [b'T' * i + b'A' + b'T' * (k - i - 1) for i in range(k)]
		for x in cands:
			if k <= 32:
				_check_valid_kmer(x, gk, revcomp)
			else:
				_expect_reject(x, gk, 'longer than 32')
				_expect_reject(x.lower(), gk, 'longer than 32')
			n += 1
		return {'evals': n, 'nontrivial_count': n, 'classes': ['boundary', 'len>32' if k > 32 else 'len<=32']}
	if kind == 'one_kmer':
		x = case['kmer'].encode()
		_check_valid_kmer(x.upper(), gk, revcomp)
		if gk.kmer_to_index(x) != R.ref_index(x):
			raise Violation('case_fold', f'{x!r} encodes differently from positional code', case)
		return {'nontrivial': True, 'classes': ['one_kmer']}
	if kind == 'one_bytes':
		s = case['data'].encode('latin-1')
		_check_bytes(s, gk, revcomp)
		return {'nontrivial': len(s) >= 1, 'classes': ['one_bytes']}
	if kind == 'long_kmer':
		x = case['kmer'].encode('ascii')
		k = len(x)
		up = x.upper()
		_check_valid_kmer(up, gk, revcomp, variants=True)
		exp = R.ref_index(x)
		if gk.kmer_to_index(x) != exp:
			raise Violation('case_fold', f'kmer_to_index({x!r}) != {exp}', case)
		if gk.kmer_to_index_rc(x) != R.ref_index(R.ref_revcomp(x)):
			raise Violation('encode_rc', f'kmer_to_index_rc({x!r}) wrong', case)
		if revcomp(x) != R.ref_revcomp(x):
			raise Violation('revcomp_case', f'revcomp({x!r}) wrong', case)
		classes = [f'k={k}' if k in (16, 17, 31, 32) else ('k:9-16' if k <= 16 else 'k:17-32')]
		if case.get('bad') is not None:
			pos, byte = case['bad']
			pos %= k
			y = x[:pos] + bytes([byte]) + x[pos + 1:]
			if R.ref_index(y) is None:
				_expect_reject(y, gk, f'byte {byte:#x} at position {pos}')
				if revcomp(y) != R.ref_revcomp(y):
					raise Violation('revcomp_bytes', f'revcomp({y!r}) wrong', case)
				classes.append('near_miss_byte')
		return {'nontrivial': True, 'classes': classes}
	if kind == 'threads':
		# the same conversions called from several Python threads at once (worker threads of a pool): every call still
		# returns its own answer
		import threading, random as _random, sys as _sys
		k = case['k']
		T = case['nthreads']
		bad = []

		def work(t):
			rnd = _random.Random(case['seed'] * 31 + t)
			for _ in range(case['n']):
				idx = rnd.randrange(4 ** k)
				x = R.ref_kmer(idx, k)
				try:
					got = gk.index_to_kmer(idx, k)
					if got != x:
						bad.append(f'index_to_kmer({idx}, {k}) = {got!r}, expected {x!r}')
						return
					if gk.kmer_to_index(x) != idx or gk.kmer_to_index_rc(x) != R.ref_index(R.ref_revcomp(x)) or revcomp(x) != R.ref_revcomp(x):
						bad.append(f'kmer_to_index / kmer_to_index_rc / revcomp of {x!r} wrong')
						return
				except Exception as e:   # noqa
					bad.append(f'{type(e).__name__}: {e}')
					return
		old_si = _sys.getswitchinterval()
		_sys.setswitchinterval(1e-5)
		try:
			ths = [threading.Thread(target=work, args=(t,)) for t in range(T)]
			for th in ths:
				th.start()
			for th in ths:
				th.join()
		finally:
			_sys.setswitchinterval(old_si)
		if bad:
			raise Violation('concurrent_callers', f'{T} Python threads converting {k}-mers at once: {bad[0]}', case)
		return {'nontrivial': True, 'classes': ['concurrent_python_callers', f'k={k}' if k in (16, 17, 31, 32) else 'k:other']}
	if kind == 'index':
		k = case['k']
		idx = case['index'] % (4 ** k)
		x = gk.index_to_kmer(idx, k)
		if x != R.ref_kmer(idx, k):
			raise Violation('decode', f'index_to_kmer({idx}, {k}) = {x!r}, expected {R.ref_kmer(idx, k)!r}', case)
		if gk.kmer_to_index(x) != idx:
			raise Violation('roundtrip', f'kmer_to_index(index_to_kmer({idx}, {k})) = {gk.kmer_to_index(x)}', case)
		import numpy as _np
		try:
			x2 = gk.index_to_kmer(idx, _np.int64(k))
		except Exception as e:
			raise Violation('decode_types', f'index_to_kmer({idx}, numpy.int64({k})) raised {type(e).__name__}: {e}', case)
		if x2 != x:
			raise Violation('decode_types', f'index_to_kmer({idx}, numpy.int64({k})) = {x2!r}, with a Python int k {x!r}', case)
		classes = ['index', f'k={k}' if k in (16, 17, 31, 32) else 'k:other']
		if idx >= 2 ** 63:
			classes.append('index>=2^63')
		if idx >= 2 ** 32:
			classes.append('index>=2^32')
		return {'nontrivial': k >= 9, 'classes': classes}
	if kind == 'revcomp':
		s = case['data'].encode('latin-1')
		rc = revcomp(s)
		if rc != R.ref_revcomp(s):
			raise Violation('revcomp_bytes', f'revcomp({s!r}) = {rc!r}', case)
		if revcomp(rc) != s:
			raise Violation('revcomp_involution', f'revcomp(revcomp({s!r})) != input', case)
		if revcomp(bytearray(s)) != rc:
			raise Violation('revcomp_types', 'bytearray input differs', case)
		# the native function takes any 1-D byte buffer: strided views must be read through their stride
		import numpy as _np
		wide = bytes(b for x in s for b in (x, 0x58))          # s interleaved with 'X'
		if len(s) and (revcomp(memoryview(wide)[::2]) != rc or revcomp(_np.frombuffer(wide, dtype=_np.uint8)[::2]) != rc):
			raise Violation('revcomp_strided', f'revcomp of a strided view of {s!r} differs from revcomp of the same bytes', case)
		return {'nontrivial': len(s) >= 3, 'classes': ['revcomp_random']}
	if kind == 'fresh_process':
		# the same conversions, but as the FIRST calls of a fresh interpreter in a drawn order (lazily initialised state)
		from vlib import freshproc
		calls = case['calls']
		# each such case costs a process start: at most a fixed number per worker and tier (replays always run)
		done = ctx.cache.get('c07_fresh_done', 0)
		if done >= (12 if ctx.tier == 'quick' else 150) and not case.get('force'):
			return {'nontrivial': False, 'classes': ['fresh_process_skipped(budget)']}
		ctx.cache['c07_fresh_done'] = done + 1
		res = freshproc.run_calls(calls, flags=case.get('flags', []))
		for (name, arg, extra), r in zip(calls, res):
			b = arg.encode('latin-1')
			if name == 'kmer_to_index':
				exp = R.ref_index(b) if len(b) <= 32 else None          # longer than 32: rejected, as any other invalid k-mer
			elif name == 'kmer_to_index_rc':
				exp = None if (R.ref_index(b) is None or len(b) > 32) else R.ref_index(R.ref_revcomp(b))
			elif name == 'revcomp':
				exp = R.ref_revcomp(b).decode('latin-1')
			elif name == 'index_to_kmer':
				exp = R.ref_kmer(int(arg), extra).decode()
			else:
				exp = R.ref_signature([b], extra[0], extra[1].encode())
			if exp is None:
				if r[0] != 'err':
					raise Violation('fresh_not_rejected', f'first calls of a fresh process {calls}: {name}({arg!r}) returned {r[1]} instead of raising', case)
			elif r != ['ok', exp]:
				raise Violation('fresh_wrong', f'first calls of a fresh process {calls}: {name}({arg!r}) gave {r}, expected {exp!r}', case)
		return {'nontrivial': True, 'classes': ['fresh_process', 'first_call=' + calls[0][0], 'interpreter_flags=' + ' '.join(case.get('flags', []))]}
	if kind == 'too_long':
		x = case['kmer'].encode('ascii')
		_expect_reject(x, gk, 'longer than 32')
		return {'nontrivial': True, 'classes': ['len>32'], 'expects_rejection': True}
	raise ValueError(kind)


def budget(tier):
	return {'quick': 60000, 'thorough': 1000000}[tier]


NEAR = sorted({c ^ (1 << b) for c in b'ACGTacgt' for b in range(8)} - set(b'ACGTacgt')) + [0, 255, ord('N'), ord('U'), ord('n'), ord('-')]


def strategy(tier):
	kmer = st.integers(9, 32).flatmap(lambda k: st.text(alphabet='ACGTacgt', min_size=k, max_size=k))
	k_boost = st.sampled_from([16, 17, 31, 32]).flatmap(lambda k: st.text(alphabet='ACGTacgt', min_size=k, max_size=k))
	long_kmer = st.builds(
		lambda kmer, bad: {'kind': 'long_kmer', 'kmer': kmer, 'bad': bad},
		st.one_of(kmer, k_boost),
		st.one_of(st.none(), st.tuples(st.integers(0, 31), st.one_of(st.sampled_from(NEAR), st.integers(0, 255))).map(list)),
	)
	index = st.builds(
		lambda k, idx: {'kind': 'index', 'k': k, 'index': idx},
		st.one_of(st.integers(1, 32), st.sampled_from([16, 17, 31, 32])),
		st.one_of(st.integers(0, 2 ** 64 - 1), st.integers(2 ** 64 - 1000, 2 ** 64 - 1), st.integers(0, 1000)),
	)
	rc = st.builds(
		lambda b: {'kind': 'revcomp', 'data': b.decode('latin-1')},
		st.one_of(st.binary(max_size=200), st.text(alphabet='ACGTacgtNn-', max_size=200).map(lambda s: s.encode())),
	)
	too_long = st.integers(33, 80).flatmap(lambda k: st.text(alphabet='ACGTacgt', min_size=k, max_size=k)).map(
		lambda s: {'kind': 'too_long', 'kmer': s})
	kmer_any = st.integers(1, 32).flatmap(lambda k: st.text(alphabet='ACGTacgt', min_size=k, max_size=k))
	bad_kmer = st.one_of(st.text(alphabet='ACGTNacgt-', min_size=1, max_size=12), st.integers(33, 40).flatmap(lambda n: st.text(alphabet='ACGT', min_size=n, max_size=n)))
	call = st.one_of(
		st.tuples(st.just('kmer_to_index_rc'), st.one_of(kmer_any, bad_kmer), st.none()).map(list),
		st.tuples(st.just('kmer_to_index'), st.one_of(kmer_any, bad_kmer), st.none()).map(list),
		st.tuples(st.just('revcomp'), st.text(alphabet='ACGTacgtN-', max_size=20), st.none()).map(list),
		st.tuples(st.just('index_to_kmer'), st.integers(0, 4 ** 6 - 1).map(str), st.just(6)).map(list),
		st.tuples(st.just('calc_signature'), st.text(alphabet='ACGT', min_size=5, max_size=40), st.sampled_from([[3, 'A'], [4, 'AT'], [2, 'C']])).map(list),
	)
	fresh = st.tuples(st.lists(call, min_size=1, max_size=4), st.sampled_from([[], ['-O'], [], ['-OO'], ['-X', 'dev']])).map(lambda t: {'kind': 'fresh_process', 'calls': t[0], 'flags': t[1]})
	rare = st.sampled_from([False] * (170 if tier == 'quick' else 80) + [True] + [False] * (130 if tier == 'quick' else 70))     # sampled_from is close to uniform (integers() favours small values)
	threads = st.builds(lambda k, t, sd: {'kind': 'threads', 'k': k, 'nthreads': t, 'seed': sd, 'n': 400 if tier == 'quick' else 3000},
	                    st.sampled_from([1, 5, 11, 16, 17, 31, 32]), st.integers(2, 8), st.integers(0, 2 ** 20))
	rare_t = st.sampled_from([False] * 60 + [True] + [False] * 60)
	return rare.flatmap(lambda f: fresh if f else rare_t.flatmap(lambda g: threads if g else st.one_of(long_kmer, long_kmer, index, rc, too_long)))
