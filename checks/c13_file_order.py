"""C13 — multi-file signature computation keeps file order under every completion order."""

import gzip
import itertools
import os
import random

from hypothesis import strategies as st

from vlib.harness import Violation
from vlib.execs import OrderedExecutor, InstantExecutor

ID = 'C13'
LEVEL = 'exploration'
RULE = ('Exhaustive: for file sets of n = 1..5 (quick: 4 file sets; thorough: n <= 6, 10 file sets) EVERY permutation of the task '
        'completion order, imposed through a caller-supplied executor that completes task perm[i] only after the result of perm[i-1] was '
        'collected (so concurrent.futures.as_completed yields exactly that order). Generated: n = 1..8 files with pairwise distinct '
        'signatures, executor kind in {ordered(drawn permutation), instant (all done before collection), real thread pool, real process '
        'pool, sequential, the `gambit signatures create -c N` command line}, max_workers in {1,2,3,8,16}, size skew (first file 300 kb, rest ~1 kb), and a fault at a drawn position '
        '(missing file, directory, truncated gzip, invalid UTF-8, binary junk). Oracle: result is a SignatureList of length n with '
        'result[i] == calc_file_signature(files[i]) and the right k-mer spec; a supplied executor is not shut down; if the single-file '
        'computation of some file raises, the whole call raises. Non-trivial: completion order differs from submission order, or a '
        'real pool with size skew, or a fault; enumerated schedules are distinct by construction, generated cases by hash.')
RULE += ' Further: well-formed inputs without sequence data; read failures of 16 exception classes injected at SequenceFile.parse in three phases (call, enter, after the first record).'
ASSUMPTIONS = ['with real thread/process pools the OS decides the completion order (sampled); only the ordered/instant executors own it']
ENUMERATED = {'quick': ['all n! completion orders for n = 1..5 on 4 file sets (612 schedules)'],
              'thorough': ['all n! completion orders for n = 1..6 on 10 file sets (8730 schedules)']}
DEADLINE_S = {'quick': 240, 'thorough': 2400}


def budget(tier):
	return {'quick': 1500, 'thorough': 15000}[tier]


def enum_cases(tier):
	nmax, nsets = (5, 4) if tier == 'quick' else (6, 10)
	for fs in range(nsets):
		for n in range(1, nmax + 1):
			for perm in itertools.permutations(range(n)):
				yield {'kind': 'sched', 'fileset': fs, 'n': n, 'mode': 'ordered', 'perm': list(perm), 'k': 6, 'skew': False,
				       'max_workers': None, 'fault': None}


def make_files(ctx, fileset, n, skew, k):
	"""Returns list of paths of n FASTA files with pairwise distinct content (cached per worker)."""
	key = ('c13', fileset, n, skew)
	if key in ctx.cache:
		return ctx.cache[key]
	d = ctx.fresh_dir('c13files')
	paths = []
	for i in range(n):
		rnd = random.Random(fileset * 1000 + i * 7 + 1)
		ln = 300000 if (skew and i == 0) else rnd.randrange(600, 1500)
		ncont = rnd.randrange(1, 4)
		recs = []
		for c in range(ncont):
			seq = ''.join(rnd.choice('ACGT') for _ in range(ln // ncont))
			recs.append(f'>f{i}c{c}\n' + '\n'.join(seq[j:j + 70] for j in range(0, len(seq), 70)) + '\n')
		data = ''.join(recs).encode()
		gz = rnd.random() < 0.4
		path = os.path.join(d, f'g{i}.fa' + ('.gz' if gz else ''))
		with open(path, 'wb') as f:
			f.write(gzip.compress(data) if gz else data)
		paths.append(path)
	ctx.cache[key] = paths
	return paths


EXC_NAMES = ['worker_killed', 'timeout', 'eio', 'estale', 'interrupted', 'blocking', 'permission', 'memory', 'eof', 'stopiteration', 'cancelled', 'futures_timeout',
             'broken_pool_lookalike', 'keyerror', 'assertion', 'unicode', 'value']


def make_fault(ctx, ftype):
	d = ctx.fresh_dir('c13fault')
	if ftype == 'missing':
		return os.path.join(d, 'nope.fasta')
	if ftype == 'directory':
		p = os.path.join(d, 'adir.fasta')
		os.makedirs(p)
		return p
	if ftype == 'truncated_gzip':
		p = os.path.join(d, 'trunc.fa.gz')
		data = gzip.compress(b'>x\n' + b'ACGT' * 5000 + b'\n')
		open(p, 'wb').write(data[:len(data) // 2])
		return p
	if ftype == 'truncated_gzip_hits':
		p = os.path.join(d, 'trunc_hits.fa.gz')
		data = gzip.compress((b'>x\n' + (b'ATACGTACGTAT' + b'CCGG') * 700 + b'\n') * 6)   # several records: the first ones parse before the error
		open(p, 'wb').write(data[:len(data) - 30])
		return p
	if ftype == 'bad_utf8':
		p = os.path.join(d, 'bad.fasta')
		open(p, 'wb').write(b'>x\nACGT\xff\xfeACGT\n')
		return p
	if ftype == 'junk':
		p = os.path.join(d, 'junk.fasta')
		open(p, 'wb').write(bytes(random.Random(5).randrange(256) for _ in range(500)))
		return p
	if ftype in ('odd_empty', 'odd_only_header', 'odd_empty_gz', 'odd_blank_lines'):
		# unusual but well-formed inputs without any sequence data: whatever the single-file computation says is the expectation
		p = os.path.join(d, ftype + '.fasta')
		open(p, 'wb').write({'odd_empty': b'', 'odd_only_header': b'>lonely header\n', 'odd_empty_gz': gzip.compress(b''), 'odd_blank_lines': b'\n\n'}[ftype])
		return p
	if ftype == 'text':
		p = os.path.join(d, 'text.fasta')
		open(p, 'w').write('this is not\na fasta file\n')
		return p
	raise ValueError(ftype)


def run_cli_create(case, ctx):
	"""`gambit signatures create -c N -k K -p AT -o OUT files...`: one signature per file, in file order, labelled by file."""
	import numpy as np
	from vlib.cli import run_cli
	from vlib.refmodel import kmer as RK
	from gambit.sigs.base import load_signatures
	import gzip as _gz
	k = case['k']
	n = case['n']
	paths = list(make_files(ctx, case['fileset'], n, case['skew'], k))
	fault = case['fault']
	if fault is not None and fault['type'].startswith('exc:'):
		fault = dict(fault, type='missing')        # injected exception classes need the library interface
	if fault is not None:
		paths[fault['pos'] % n] = make_fault(ctx, fault['type'])
	out = ctx.fresh_path('.gs')
	args = ['signatures', 'create', '-k', str(k), '-p', 'AT', '-o', out, '--no-progress']
	if case['max_workers'] is not None:
		args += ['-c', str(case['max_workers'])]
	listmode = case.get('listfile')
	if listmode and fault is None:
		lf = ctx.fresh_path('.txt')
		open(lf, 'w').write('\n'.join(paths) + '\n')
		args += ['-l', lf, '--ldir', '/']
	else:
		args += paths
	res = run_cli(args)
	if fault is not None and fault['type'] in ('missing', 'directory'):
		# click itself rejects these paths (exists=True, dir_okay=False)
		if res.exit_code == 0:
			raise Violation('fault_swallowed', f'signatures create accepted an unreadable path ({fault["type"]})', case)
		return {'nontrivial': True, 'classes': ['mode=cli_create', 'fault=' + fault['type']]}
	if fault is not None:
		if res.exit_code == 0:
			try:
				with load_signatures(out) as s:
					ln = len(s)
			except Exception:
				ln = 'unreadable'
			raise Violation('fault_swallowed', f'signatures create exited 0 although file {fault["pos"] % n} ({fault["type"]}) cannot be parsed; output has {ln} signatures', case)
		if os.path.exists(out):
			try:
				with load_signatures(out) as s:
					raise Violation('fault_partial_output', f'signatures create failed but left a loadable signature file with {len(s)} signatures', case)
			except Violation:
				raise
			except Exception:
				pass
		return {'nontrivial': True, 'classes': ['mode=cli_create', 'fault=' + fault['type']]}
	if res.exit_code != 0:
		raise Violation('exception', f'signatures create failed: exit {res.exit_code}: {res.stderr[-300:]} {res.exception!r}', case)
	from vlib.clihelp import expected_label
	with load_signatures(out) as s:
		ids = [str(x) for x in s.ids]
		sigs = [[int(v) for v in s[i]] for i in range(len(s))]
		spec = (s.kmerspec.k, s.kmerspec.prefix_str)
	if spec != (k, 'AT'):
		raise Violation('kmerspec', f'created file has spec {spec}', case)
	want_ids = [expected_label(p) for p in paths]
	if ids != want_ids:
		raise Violation('misplaced', f'created file ids {ids} != file labels in input order {want_ids}', case)
	for i, p in enumerate(paths):
		data = open(p, 'rb').read()
		if data[:2] == b'\x1f\x8b':
			data = _gz.decompress(data)
		contigs = [b''.join(rec.split(b'\n')[1:]) for rec in data.split(b'>')[1:]]
		exp = RK.ref_signature(contigs, k, b'AT')
		if sigs[i] != exp:
			where = [j for j in range(n) if sigs[i] == sigs[j] and j != i]
			raise Violation('misplaced', f'signature {i} of the created file is not the signature of file {i} ({os.path.basename(p)})', case)
	return {'nontrivial': n >= 2 and case['max_workers'] not in (None, 1), 'classes': ['mode=cli_create', f'n={n}', f'workers={case["max_workers"]}',
	        'size_skew' if case['skew'] else 'no_skew', 'listfile' if listmode else 'positional']}


def run_case(case, ctx):
	if case.get('mode') == 'cli_create':
		return run_cli_create(case, ctx)
	import numpy as np
	from gambit.kmers import KmerSpec
	from gambit.seq import SequenceFile
	from gambit.sigs.base import SignatureList
	from gambit.sigs.calc import calc_file_signature, calc_file_signatures

	k = case['k']
	kspec = KmerSpec(k, 'AT')
	n = case['n']
	paths = list(make_files(ctx, case['fileset'], n, case['skew'], k))
	fault = case['fault']
	injected = None
	if fault is not None:
		pos = fault['pos'] % n
		if fault['type'].startswith('exc:'):
			# reading this file fails with a chosen exception class at a chosen moment (injected at SequenceFile.parse)
			injected = fault['type'].split(':')
			if injected[1] == 'worker_killed' and case['mode'] != 'processes':
				injected[1] = 'eio'         # killing the process only makes sense where files are handled by worker processes
		else:
			paths[pos] = make_fault(ctx, fault['type'])
	odd = case.get('odd') if fault is None else None
	if odd is not None:
		paths[odd['pos'] % n] = make_fault(ctx, odd['type'])
	files = SequenceFile.from_paths(paths, 'fasta', 'auto')
	if case.get('explicit_compression') and fault is None:
		files = [SequenceFile(p_, 'fasta', 'gzip' if open(p_, 'rb').read(2) == b'\x1f\x8b' else None) for p_ in paths]
	if injected is not None:
		from vlib.faultfile import FaultyFile
		files = list(files)
		files[pos] = FaultyFile(paths[pos], injected[1], injected[2])
	if case.get('files_as_tuple'):
		files = tuple(files)
	if case.get('poison'):
		# an earlier call in the same process that failed part-way must leave no trace
		pp = make_fault(ctx, 'truncated_gzip_hits')
		for kw_p in (dict(concurrency=None), dict(concurrency='threads', max_workers=1)):
			try:
				calc_file_signatures(kspec, SequenceFile.from_paths([paths[0], pp] if kw_p.get('concurrency') else [pp], 'fasta', 'auto'), **kw_p)
			except Exception:
				pass
	# single-file results (oracle); cached for the healthy files
	singles = []
	expect_fail = False
	for i, f in enumerate(files):
		ck = ('c13sig', str(f.path), k)
		if ck in ctx.cache and not case.get('poison') and not (injected is not None and i == pos):
			singles.append(ctx.cache[ck])
			continue
		try:
			s = calc_file_signature(kspec, f)
		except Exception as e:
			singles.append(e)
			expect_fail = True
			continue
		if (fault is None or i != fault['pos'] % n) and (odd is None or i != odd['pos'] % n):
			ctx.cache[ck] = s
		singles.append(s)
	if fault is not None:
		# every generated fault (missing path, directory, truncated gzip, bytes that are not UTF-8, binary junk, text that is not
		# FASTA) is a file that cannot be read or parsed as FASTA: the single-file computation must fail as well
		fi = fault['pos'] % n
		if not isinstance(singles[fi], Exception):
			raise Violation('fault_swallowed_single', f'calc_file_signature accepted an unparseable file ({fault["type"]}) and returned {len(singles[fi])} k-mers', case)
		expect_fail = True
	if fault is None and not expect_fail:
		for i in range(n):
			for j in range(i + 1, n):
				if np.array_equal(singles[i], singles[j]):
					raise AssertionError('harness: file signatures not pairwise distinct')
		# independent oracle for the single-file results themselves (definitional R-KMER signature of the file content)
		from vlib.refmodel import kmer as RK
		for i, pth in enumerate(paths):
			ck = ('c13ref', pth, k)
			if ck not in ctx.cache:
				data = open(pth, 'rb').read()
				if data[:2] == b'\x1f\x8b':
					data = gzip.decompress(data)
				if len(data) > 20000:
					ctx.cache[ck] = None
				else:
					ctx.cache[ck] = RK.ref_signature([b''.join(rec.split(b'\n')[1:]) for rec in data.split(b'>')[1:]], k, b'AT')
			if ctx.cache[ck] is not None and [int(v) for v in singles[i]] != ctx.cache[ck]:
				raise Violation('single_file_wrong', f'calc_file_signature(file {i}) differs from the definitional signature of its content '
				                f'(extra {sorted(set(int(v) for v in singles[i]) - set(ctx.cache[ck]))[:5]})', case)

	mode = case['mode']
	ex = None
	kw = {}
	if mode == 'ordered':
		perm = case['perm']
		if sorted(perm) != list(range(n)):
			perm = sorted(range(n), key=lambda i: (perm[i % len(perm)] if perm else 0, i))
		ex = OrderedExecutor(perm)
		kw = dict(executor=ex)
	elif mode == 'instant':
		ex = InstantExecutor()
		kw = dict(executor=ex)
	elif mode == 'reused_threads':
		# a caller-owned real thread pool that has already been used (also for a failing call) before this call
		from concurrent.futures import ThreadPoolExecutor
		real_ex = ThreadPoolExecutor(max_workers=case['max_workers'] or 2)
		try:
			calc_file_signatures(kspec, SequenceFile.from_paths([paths[-1], make_fault(ctx, 'truncated_gzip_hits')], 'fasta', 'auto'), executor=real_ex)
		except Exception:
			pass
		kw = dict(executor=real_ex)
	elif mode in ('threads', 'processes'):
		kw = dict(concurrency=mode, max_workers=case['max_workers'])
	elif mode == 'none':
		kw = dict(concurrency=None)
	else:
		raise ValueError(mode)
	try:
		try:
			res = calc_file_signatures(kspec, files, progress=case.get('progress'), **kw)
			err = None
		except Exception as e:
			res, err = None, e
	finally:
		if ex is not None:
			alive_ok = ex.finish()
		if mode == 'reused_threads':
			was_shut = real_ex._shutdown
			real_ex.shutdown(wait=True)
	if mode == 'reused_threads' and was_shut:
		raise Violation('executor_shut_down', 'caller-supplied ThreadPoolExecutor was shut down by calc_file_signatures', case)
	if ex is not None:
		if ex.shutdown_called:
			raise Violation('executor_shut_down', 'caller-supplied executor was shut down by calc_file_signatures', case)
		if isinstance(ex, OrderedExecutor) and ex.stalled:
			raise Violation('not_all_submitted', f'only {len(ex.tasks)} of {n} files were submitted to the executor', case)
	if expect_fail:
		if err is None:
			got = f'{type(res).__name__} of length {len(res)}' if res is not None else 'None'
			bad = fault or odd
			raise Violation('fault_swallowed', f'file {bad["pos"] % n} ({bad["type"]}) cannot be read ({type(singles[bad["pos"] % n]).__name__}) '
			                f'but the call returned {got} (mode {mode})', case)
	else:
		if err is not None:
			raise Violation('exception', f'calc_file_signatures raised {type(err).__name__}: {err} (mode {mode})', case)
		if not isinstance(res, SignatureList):
			raise Violation('result_type', f'result is {type(res).__name__}, not SignatureList', case)
		if len(res) != n:
			raise Violation('result_length', f'{len(res)} signatures for {n} files (mode {mode})', case)
		if res.kmerspec != kspec:
			raise Violation('kmerspec', f'result k-mer spec {res.kmerspec!r} != {kspec!r}', case)
		for i in range(n):
			r = res[i]
			if not isinstance(r, np.ndarray) or r.dtype != singles[i].dtype or not np.array_equal(r, singles[i]):
				where = [j for j in range(n) if isinstance(r, np.ndarray) and np.array_equal(r, singles[j])]
				order = f', completion order {ex.completed_order}' if isinstance(ex, OrderedExecutor) else ''
				raise Violation('misplaced', f'result[{i}] is not the signature of file {i} (it equals that of file(s) {where}); mode {mode}{order}', case)
	classes = ['mode=' + mode, f'n={n}'] + (['after_failed_call'] if case.get('poison') else [])
	nontrivial = False
	if mode == 'ordered':
		if ex.uncontrolled:
			classes.append('order_uncontrolled')
		elif ex.completed_order != list(range(n)) and len(ex.completed_order) == n:
			nontrivial = True
			classes.append('out_of_order_completion')
			if ex.completed_order == list(range(n))[::-1]:
				classes.append('reverse_order')
	elif mode == 'instant':
		nontrivial = n >= 2
	elif mode == 'reused_threads':
		nontrivial = n >= 2
	elif mode in ('threads', 'processes'):
		classes.append(f'workers={case["max_workers"]}')
		if case['skew']:
			classes.append('size_skew')
			nontrivial = n >= 2
	if odd is not None:
		classes.append('odd_input=' + odd['type'] + ('(rejected by the single-file computation)' if expect_fail else ''))
	if fault is not None:
		classes.append('fault=' + fault['type'])
		classes.append('fault_expected_fail' if expect_fail else 'fault_parses_ok')
		nontrivial = nontrivial or expect_fail
	return {'nontrivial': nontrivial, 'classes': classes, 'expects_rejection': bool(expect_fail)}


@st.composite
def gen_case(draw, tier):
	n = draw(st.integers(1, 8))
	mode = draw(st.sampled_from(['ordered', 'threads', 'processes', 'instant', 'none', 'ordered', 'threads', 'cli_create', 'reused_threads']))
	fault = draw(st.one_of(st.none(), st.none(), st.builds(lambda p, t: {'pos': p, 'type': t}, st.integers(0, 7),
	                                                        st.one_of(st.sampled_from(['missing', 'directory', 'truncated_gzip', 'bad_utf8', 'junk', 'text']),
	                                                                  st.builds(lambda e, ph: f'exc:{e}:{ph}', st.sampled_from(EXC_NAMES + ['worker_killed'] * 8), st.sampled_from(['call', 'enter', 'mid']))))))
	return {
		'kind': 'sched', 'fileset': draw(st.integers(100, 140)), 'n': n, 'mode': mode,
		'perm': draw(st.permutations(list(range(n)))), 'k': draw(st.sampled_from([6, 5, 8])),
		'skew': draw(st.booleans()) if mode in ('threads', 'processes', 'cli_create') else False,
		'max_workers': draw(st.sampled_from([2, 1, 3, 8, 16] + ([None] if mode == 'cli_create' else []))),
		'listfile': draw(st.booleans()),
		'progress': draw(st.sampled_from([None, None, 'click', False])),
		'poison': draw(st.sampled_from([False, False, True])),
		'explicit_compression': draw(st.booleans()), 'files_as_tuple': draw(st.booleans()),
		'fault': fault,
		'odd': draw(st.one_of(st.none(), st.none(), st.builds(lambda p, t: {'pos': p, 'type': t}, st.integers(0, 7),
		                                                         st.sampled_from(['odd_empty', 'odd_only_header', 'odd_empty_gz', 'odd_blank_lines'])))),
	}


def strategy(tier):
	return gen_case(tier)
