"""C14 — signatures built with different k-mer parameters are never compared silently."""

import os
import shutil

from hypothesis import strategies as st

from vlib.harness import Violation
from vlib import world as Wd
from vlib import clihelp as H
from vlib.cli import run_cli

ID = 'C14'
LEVEL = 'exploration'
COMMANDS = ['query_s', 'dist_qs_rs', 'dist_qs_usedb', 'dist_q_rs', 'dist_ql_usedb', 'dist_qs_r', 'dist_qs_rl', 'dist_q_r',
            'dist_qs_square', 'dist_k_only', 'dist_p_only', 'create_dbparams_kp', 'create_dbparams', 'query_s_strict']
RULE = ('Generated: a database built with k-mer spec D, query / reference signature files built with specs Q and R (each equal to D or '
        'differing in k, in prefix, or both), optional explicit -k/-p options E, and every command line that brings two sources together: '
        '`query -s`; `dist --qs x {--rs, --use-db, -r, --rl, --square}`; `dist {-q,--ql} x {--rs,--use-db}` (parameters must be taken from the '
        'pre-computed side); -k without -p and vice versa; `signatures create --db-params` with and without -k/-p; output path absent or '
        'pre-existing with sentinel content. Oracle: if any two of the specs involved differ -> exit status != 0, an error is reported, '
        'output absent / sentinel untouched; otherwise exit 0 and every distance equals R-JAC of R-KMER signatures computed under the '
        'parameters of the pre-computed side / the database. Non-trivial: a command joining two sources whose specs differ; distinct by '
        'case hash.')
RULE += ' Further: the default spec given explicitly; a warm-up run with other parameters on the same genome files; signature files sharing one file name in different directories.'
ASSUMPTIONS = ['explicit -k/-p values respect the CLI limits (k >= 5, prefix length >= 2)', 'commands are invoked in-process through click.testing.CliRunner']
DEADLINE_S = {'quick': 240, 'thorough': 2400}
DEFAULT_SPEC = (11, 'ATGAC')


def budget(tier):
	return {'quick': 2000, 'thorough': 20000}[tier]


def run_case(case, ctx):
	W = Wd.get_world(ctx, case['world'], 'c14world')
	D = (W.k, W.prefix)
	Q = tuple(case['specQ']) if case['specQ'] else D
	R = tuple(case['specR']) if case['specR'] else D
	E = tuple(case['specE']) if case['specE'] else None
	cmd = case['cmd']
	d = ctx.fresh_dir('c14')
	try:
		qgen = W.query_contigs[:3]
		rgen = W.ref_contigs[:3]
		qnames = [f'qq{i}.fasta' for i in range(len(qgen))]
		rnames = [f'rr{i}.fa' for i in range(len(rgen))]
		qpaths = H.write_genomes(os.path.join(d, 'qdir'), qgen, qnames)
		rpaths = H.write_genomes(os.path.join(d, 'rdir'), rgen, rnames)
		qs_path = os.path.join(d, 'q.gs')
		rs_path = os.path.join(d, 'r.gs')
		if case.get('same_basename'):
			# the two signature files carry the same file name in different directories
			os.makedirs(os.path.join(d, 'queries')); os.makedirs(os.path.join(d, 'refs'))
			qs_path = os.path.join(d, 'queries', 'signatures.gs')
			rs_path = os.path.join(d, 'refs', 'signatures.gs')
		qsig_Q = H.write_sigfile(qs_path, qgen, Q[0], Q[1], [f'qid{i}' for i in range(len(qgen))])
		rsig_R = H.write_sigfile(rs_path, rgen, R[0], R[1], [f'rid{i}' for i in range(len(rgen))])
		out = os.path.join(d, 'out.csv')
		if case.get('warmup'):
			# earlier in the same process the very same genome files were processed with OTHER k-mer parameters
			# (an ordinary all-vs-all run): nothing of that may be remembered
			wspec = next(sp for sp in ((9, 'ATG'), (10, 'AC'), (7, 'TTG'), (11, 'ATGAC'), (6, 'GA')) if sp not in (tuple(Q), tuple(R), tuple(E) if E else None, (W.k, W.prefix)))
			for paths_, tag in ((qpaths, 'q'), (rpaths, 'r')):
				run_cli(['dist', '--square', '-o', os.path.join(d, f'warm_{tag}.csv'), '--no-progress', '-k', str(wspec[0]), '-p', wspec[1]] + [x for p_ in paths_ for x in ('-q', p_)])
		if case['out_exists']:
			open(out, 'w').write('SENTINEL\n')
		kp = ['-k', str(E[0]), '-p', (E[1].lower() if case.get('lower_prefix') else E[1])] if E else []
		mismatch = False
		eff = None          # effective spec for a successful run
		expect = None       # ('dist', qsigs, rsigs, qlabels, rlabels) | ('query', qsigs) | ('create',)
		db = ['-d', W.dir]
		env = None
		if case.get('db_via_env'):
			db, env = [], {'GAMBIT_DB_PATH': W.dir}
		if cmd in ('query_s', 'query_s_strict'):
			args = db + ['query', '-s', qs_path, '-o', out, '--no-progress'] + (['--strict'] if cmd.endswith('strict') else [])
			mismatch = Q != D
			expect = ('query', qsig_Q)
		elif cmd == 'dist_qs_rs':
			args = ['dist', '--qs', qs_path, '--rs', rs_path, '-o', out, '--no-progress'] + kp
			mismatch = Q != R or (E is not None and (E != Q or E != R))
			expect = ('dist', qsig_Q, rsig_R, [f'qid{i}' for i in range(len(qgen))], [f'rid{i}' for i in range(len(rgen))])
		elif cmd == 'dist_qs_usedb':
			args = db + ['dist', '--qs', qs_path, '--use-db', '-o', out, '--no-progress'] + kp
			mismatch = Q != D or (E is not None and (E != Q or E != D))
			expect = ('dist_db', qsig_Q)
		elif cmd == 'dist_q_rs':
			args = ['dist', '--rs', rs_path, '-o', out, '--no-progress'] + kp
			for p in qpaths:
				args += ['-q', p]
			mismatch = E is not None and E != R
			eff = R
			expect = ('dist', H.ref_sigs(qgen, R[0], R[1]), rsig_R, [f'qq{i}' for i in range(len(qgen))], [f'rid{i}' for i in range(len(rgen))])
		elif cmd == 'dist_ql_usedb':
			lf = os.path.join(d, 'qlist.txt')
			open(lf, 'w').write('\n'.join(qnames) + '\n')
			args = db + ['dist', '--ql', lf, '--qdir', os.path.join(d, 'qdir'), '--use-db', '-o', out, '--no-progress'] + kp
			mismatch = E is not None and E != D
			expect = ('dist_db', H.ref_sigs(qgen, D[0], D[1]))
		elif cmd in ('dist_qs_r', 'dist_qs_rl'):
			args = ['dist', '--qs', qs_path, '-o', out, '--no-progress'] + kp
			if cmd == 'dist_qs_r':
				for p in rpaths:
					args += ['-r', p]
			else:
				lf = os.path.join(d, 'rlist.txt')
				open(lf, 'w').write('\n'.join(rnames) + '\n')
				args += ['--rl', lf, '--rdir', os.path.join(d, 'rdir')]
			mismatch = E is not None and E != Q
			expect = ('dist', qsig_Q, H.ref_sigs(rgen, Q[0], Q[1]), [f'qid{i}' for i in range(len(qgen))], [f'rr{i}' for i in range(len(rgen))])
		elif cmd == 'dist_q_r':
			args = ['dist', '-o', out, '--no-progress'] + kp
			for p in qpaths:
				args += ['-q', p]
			for p in rpaths:
				args += ['-r', p]
			eff = E or DEFAULT_SPEC
			expect = ('dist', H.ref_sigs(qgen, eff[0], eff[1]), H.ref_sigs(rgen, eff[0], eff[1]), [f'qq{i}' for i in range(len(qgen))], [f'rr{i}' for i in range(len(rgen))])
		elif cmd == 'dist_qs_square':
			args = ['dist', '--qs', qs_path, '--square', '-o', out, '--no-progress'] + kp
			mismatch = E is not None and E != Q
			lab = [f'qid{i}' for i in range(len(qgen))]
			expect = ('dist', qsig_Q, qsig_Q, lab, lab)
		elif cmd in ('dist_k_only', 'dist_p_only'):
			args = ['dist', '--qs', qs_path, '--rs', rs_path, '-o', out, '--no-progress'] + (['-k', str(Q[0])] if cmd == 'dist_k_only' else ['-p', Q[1]])
			mismatch = True
		elif cmd == 'create_dbparams_kp':
			out = os.path.join(d, 'created.gs')
			if case['out_exists']:
				open(out, 'w').write('SENTINEL\n')
			e = E or D
			args = db + ['signatures', 'create', '--db-params', '-k', str(e[0]), '-p', e[1], '-o', out, '--no-progress'] + qpaths
			mismatch = True
		elif cmd == 'create_dbparams':
			out = os.path.join(d, 'created.gs')
			args = db + ['signatures', 'create', '--db-params', '-o', out, '--no-progress'] + qpaths
			expect = ('create', H.ref_sigs(qgen, D[0], D[1]))
		else:
			raise ValueError(cmd)

		res = run_cli(args, env=env)
		desc = f'`gambit {" ".join(a if not a.startswith(d) else os.path.relpath(a, d) for a in args)}` (D={D}, Q={Q}, R={R}, E={E})'
		if mismatch:
			if res.exit_code == 0:
				raise Violation('mismatch_accepted:' + cmd, f'{desc}: k-mer parameters differ but the command exited 0', case)
			if not res.stderr.strip() and res.exception is None:
				raise Violation('mismatch_silent:' + cmd, f'{desc}: non-zero exit but nothing reported', case)
			if case['out_exists']:
				if open(out).read() != 'SENTINEL\n':
					raise Violation('output_clobbered:' + cmd, f'{desc}: command failed but the existing output file was modified', case)
			elif os.path.exists(out) and os.path.getsize(out) > 0:
				raise Violation('output_written:' + cmd, f'{desc}: command failed but wrote {os.path.getsize(out)} bytes of output', case)
		else:
			if res.exit_code != 0:
				raise Violation('refused_without_mismatch:' + cmd, f'{desc}: no mismatch but exit {res.exit_code}: {res.stderr[-300:]} {res.exception!r}', case)
			if expect[0] == 'dist':
				_, qs, rs, ql, rl = expect
				rows = H.read_csv(out)
				want = [[''] + rl] + [[ql[i]] + [H.dist_str(q, r) for r in rs] for i, q in enumerate(qs)]
				if rows != want:
					raise Violation('wrong_distances:' + cmd, f'{desc}: output {rows} != expected {want} under the parameters of the pre-computed side', case)
			elif expect[0] == 'dist_db':
				qs = expect[1]
				rows = H.read_csv(out)
				# header = ids of all signatures in the database file, in file order
				hdr = []
				cols = []
				import numpy as np
				from gambit.sigs.base import load_signatures
				with load_signatures(W.gs_path) as dbs:
					hdr = [str(x) for x in dbs.ids]
					cols = [[int(v) for v in dbs[i]] for i in range(len(dbs))]
				labels = [f'qid{i}' for i in range(len(qs))] if cmd == 'dist_qs_usedb' else [f'qq{i}' for i in range(len(qs))]
				want = [[''] + hdr] + [[labels[i]] + [H.dist_str(q, c) for c in cols] for i, q in enumerate(qs)]
				if rows != want:
					raise Violation('wrong_distances:' + cmd, f'{desc}: output differs from distances under the database parameters', case)
			elif expect[0] == 'query':
				qs = expect[1]
				rows = H.read_csv(out)
				col = rows[0].index('closest.distance')
				for i, q in enumerate(qs):
					dmin = min(float(H.RJ.bits_to_float(H.RJ.ref_dist_bits(q, r))) for r in W.ref_sigs)
					# the CSV prints the shortest repr of the binary32 value: compare as binary32
					if rows[1 + i][0] != f'qid{i}' or H.RJ.float_to_bits(float(rows[1 + i][col])) != H.RJ.float_to_bits(dmin):
						raise Violation('wrong_distances:' + cmd, f'{desc}: row {i} = {rows[1 + i][:7]}, expected label qid{i} and closest distance {dmin!r}', case)
			elif expect[0] == 'create':
				from gambit.sigs.base import load_signatures
				with load_signatures(out) as s:
					if (s.kmerspec.k, s.kmerspec.prefix_str) != D:
						raise Violation('create_wrong_params', f'{desc}: created file has k-mer spec {s.kmerspec!r}, database has {D}', case)
					got = [[int(v) for v in s[i]] for i in range(len(s))]
				if got != expect[1]:
					raise Violation('create_wrong_sigs', f'{desc}: created signatures differ from R-KMER under the database parameters', case)
		classes = ['cmd=' + cmd, 'mismatch' if mismatch else 'consistent', 'explicit' if E else 'implicit'] + (['after_run_with_other_parameters'] if case.get('warmup') else []) + (['signature_files_share_a_name'] if case.get('same_basename') else []) + [
		           'out_exists' if case['out_exists'] else 'out_absent']
		joins = cmd not in ('dist_q_r', 'create_dbparams', 'dist_k_only', 'dist_p_only')
		return {'nontrivial': bool(mismatch and joins), 'classes': classes, 'expects_rejection': bool(mismatch)}
	finally:
		shutil.rmtree(d, ignore_errors=True)


SPECS = [(5, 'AT'), (6, 'AT'), (7, 'AT'), (5, 'AC'), (6, 'AC'), (6, 'ATG'), (5, 'TA'), (7, 'ATG'), (8, 'CC'), (17, 'AT'), (20, 'AC')]


@st.composite
def gen_case(draw, tier):
	w = draw(Wd.world(max_refs=4, min_refs=2, max_queries=3, nasty_names=False))
	w['k'], w['prefix'] = draw(st.sampled_from(SPECS[:6] + SPECS[9:]))
	D = (w['k'], w['prefix'])

	def other(base):
		kind = draw(st.sampled_from(['same', 'k', 'prefix', 'both', 'same']))
		if kind == 'same':
			return None if base == D else list(base)
		k, p = base
		if kind in ('k', 'both'):
			k = draw(st.sampled_from([x for x in (5, 6, 7, 8, 17, 18) if x != base[0]]))
		if kind in ('prefix', 'both'):
			rc_of = {'AC': 'GT', 'GT': 'AC', 'ATG': 'CAT', 'CAT': 'ATG', 'GAT': 'ATC', 'ATC': 'GAT', 'GA': 'TC', 'TC': 'GA', 'CC': 'GG'}
			p = draw(st.sampled_from([x for x in ('AT', 'AC', 'ATG', 'TA', 'GAT', 'GT', 'CAT') if x != base[1]] + ([rc_of[base[1]]] * 3 if base[1] in rc_of else [])))
		return [k, p]
	specQ = other(D)
	specR = other(tuple(specQ) if specQ else D) if draw(st.booleans()) else other(D)
	e = draw(st.sampled_from(['none', 'none', 'D', 'Q', 'R', 'other', 'default']))
	if e == 'none':
		specE = None
	elif e == 'D':
		specE = list(D)
	elif e == 'Q':
		specE = specQ or list(D)
	elif e == 'R':
		specE = specR or list(D)
	elif e == 'default':
		specE = [11, 'ATGAC']
	else:
		specE = list(draw(st.sampled_from(SPECS)))
	return {'kind': 'cmd', 'world': w, 'specQ': specQ, 'specR': specR, 'specE': specE,
	        'cmd': draw(st.sampled_from(COMMANDS)), 'out_exists': draw(st.booleans()),
	        'lower_prefix': draw(st.sampled_from([False, False, True])), 'db_via_env': draw(st.sampled_from([False, False, True])),
	        'warmup': draw(st.sampled_from([False, True, False])), 'same_basename': draw(st.sampled_from([False, True, False]))}


def strategy(tier):
	return gen_case(tier)
