"""C09 — the closest-genomes list is the deterministic (distance, reference order) prefix."""

import json
import os
import random
import types

from hypothesis import strategies as st

from vlib.harness import Violation
from vlib.refmodel.taxonomy import Forest
from vlib.refmodel import jaccard as J
from vlib import taxgen
from vlib import world as Wd

ID = 'C09'
LEVEL = 'exploration'
RULE = ('Generated (rows): tie-heavy binary32 distance rows (values from a 2..5 element set, length 1..1000) over generated forests -> '
        'gambit.query.get_result_item with report_closest in {1,2,3,10,n,n+5}. Generated (worlds): databases with identical / equidistant '
        'reference genomes (duplicates, short ancestors, up to 40 references, permuted signature files) -> gambit.query.query. Generated '
        '(configurations): the same `gambit query -f json/csv` run as a subprocess under NPY_DISABLE_CPU_FEATURES in {unset, AVX512*, '
        'AVX512*+AVX2+FMA3} x -c in {1,4,16}. Oracle: closest_genomes == genomes sorted by (distance, reference order)[:N], each with the '
        'bit-exact distance and matched taxon = first lineage taxon with threshold >= d; first entry is classifier_result.closest_match; '
        'CSV closest.description == JSON closest_genomes[0]; identical across configurations. Non-trivial: a tie inside the first N+1 '
        'positions; distinct by case hash.')
RULE += ' Further: the minimum distance occurring only at positions >= 257; worlds sharing their file with a second genome set; JSON / CSV exports of every world result parsed and each entry checked.'
ASSUMPTIONS = ['CPU dispatch is varied through NumPy\'s NPY_DISABLE_CPU_FEATURES on the CPU of this sandbox only']
DEADLINE_S = {'quick': 240, 'thorough': 2400}
CPU_CONFIGS = [None, 'AVX512F AVX512CD AVX512_SKX AVX512_CLX AVX512_CNL AVX512_ICL AVX512_SPR',
               'AVX512F AVX512CD AVX512_SKX AVX512_CLX AVX512_CNL AVX512_ICL AVX512_SPR AVX2 FMA3']


def budget(tier):
	return {'quick': 4000, 'thorough': 30000}[tier]


def run_case(case, ctx):
	kind = case['kind']
	if kind == 'row':
		return run_row(case, ctx)
	if kind == 'world':
		return run_world(case, ctx)
	if kind == 'subproc':
		return run_subproc(case, ctx)
	raise ValueError(kind)


def run_row(case, ctx):
	import numpy as np
	from gambit.query import get_result_item, QueryParams, QueryInput
	n = case['n']
	rnd = random.Random(case['seed'])
	values = [taxgen.f32(v) for v in case['values']]
	dists = [rnd.choice(values) for _ in range(n)]
	if case.get('min_from') and len(set(dists)) >= 2:
		# the minimum distance only occurs late in the reference order (position >= min_from): earlier occurrences get the next value
		p0 = min(case['min_from'], max(n - 2, 0))
		lo = min(dists)
		nxt = min(v for v in dists if v > lo)
		dists = [nxt if (i < p0 and v == lo) else v for i, v in enumerate(dists)]
		if lo not in dists[p0:]:
			dists[p0:p0 + 2] = [lo] * len(dists[p0:p0 + 2])
	taxa = taxgen.resolve_thresholds(case['taxa'], dists)
	F = Forest(taxa)
	genome_taxa = [rnd.randrange(len(taxa)) for _ in range(n)]
	tobjs, gobjs = taxgen.build_orm(taxa, genome_taxa)
	tindex = {id(t): i for i, t in enumerate(tobjs)}
	gindex = {id(g): i for i, g in enumerate(gobjs)}
	db = types.SimpleNamespace(genomes=gobjs)
	N = case['report_closest']
	if N == 'n':
		N = n
	elif N == 'n+5':
		N = n + 5
	darr = np.array(dists, dtype=np.float32)
	try:
		item = get_result_item(db, QueryParams(report_closest=N, classify_strict=case.get('strict', False)), darr, QueryInput('q'))
	except Exception as e:
		raise Violation('exception', f'get_result_item raised {type(e).__name__}: {e}', case)
	exp = sorted(range(n), key=lambda i: (dists[i], i))[:N]
	got = [gindex.get(id(m.genome)) for m in item.closest_genomes]
	if got != exp:
		first = next((p for p, (a, b) in enumerate(zip(got, exp)) if a != b), min(len(got), len(exp)))
		raise Violation('closest_order', f'closest_genomes (n={n}, N={N}) differs from the (distance, reference order) prefix at position {first}: '
		                f'got genomes {got[max(0, first - 2):first + 4]} with distances {[dists[g] if g is not None else None for g in got[max(0, first - 2):first + 4]]}, '
		                f'expected {exp[max(0, first - 2):first + 4]}', case)
	for m, i in zip(item.closest_genomes, exp):
		if float(m.distance) != float(dists[i]):
			raise Violation('closest_distance', f'genome {i}: listed distance {float(m.distance)!r} != {dists[i]!r}', case)
		mt = None if m.matched_taxon is None else tindex.get(id(m.matched_taxon))
		if mt != F.match(genome_taxa[i], dists[i]):
			raise Violation('closest_matched_taxon', f'genome {i}: matched taxon {mt}, expected {F.match(genome_taxa[i], dists[i])}', case)
	if item.closest_genomes and item.closest_genomes[0].genome is not item.classifier_result.closest_match.genome:
		raise Violation('first_not_closest_match', f'closest_genomes[0] is genome {got[0]} but classifier closest_match is genome '
		                f'{gindex.get(id(item.classifier_result.closest_match.genome))}', case)
	lim = min(N + 1, n)
	full = sorted(range(n), key=lambda i: (dists[i], i))[:lim]
	tie = any(dists[a] == dists[b] for a, b in zip(full, full[1:]))
	classes = ['row', 'n>16' if n > 16 else 'n<=16'] + (['closest_index>=257'] if exp and exp[0] >= 257 else [])
	if dists.count(min(dists)) > 1:
		classes.append('tie_at_min')
	if N < n and dists[full[N - 1]] == dists[full[N]] if N < len(full) else False:
		classes.append('tie_at_cut')
	return {'nontrivial': tie, 'classes': classes}


def _expected_items(W, nq, N):
	out = []
	for qi in range(nq):
		out.append(W.closest_list(qi, N))
	return out


def run_world(case, ctx):
	import numpy as np
	from gambit.query import query
	W = Wd.get_world(ctx, case['world'], 'c09world')
	try:
		db = W.load_db(case.get('multi_set'))
	except Exception as e:
		raise Violation('exception', f'load_from_dir raised {type(e).__name__}: {e}', case)
	try:
		nref = len(W.ref_sigs)
		N = case['report_closest']
		N = nref if N == 'n' else nref + 5 if N == 'n+5' else N
		qs = [np.array(s, dtype=W.dtype) for s in W.query_sigs]
		try:
			if case.get('reuse_params'):
				# the caller's QueryParams object was used before, for a smaller database (first two genomes only)
				from gambit.query import QueryParams
				w2 = dict(case['world'])
				w2['genomes'] = [dict(g, dup_of=None) for g in case['world']['genomes'][:2]]
				w2['queries'] = [dict(q, ref=0) for q in case['world']['queries'][:1]]
				W2 = Wd.get_world(ctx, w2, 'c09world')
				params = QueryParams(report_closest=N, chunksize=case['chunksize'])
				db2 = W2.load_db()
				try:
					query(db2, [np.array(W2.query_sigs[0], dtype=W2.dtype)], params)
				finally:
					db2.signatures.close(); db2.session.close(); db2.session.get_bind().dispose()
				res = query(db, qs, params)
			else:
				res = query(db, qs, report_closest=N, chunksize=case['chunksize'])
		except Exception as e:
			raise Violation('exception', f'query raised {type(e).__name__}: {e}', case)
		keys = [f['key'] for f in W.genome_fields]
		tie = False
		for qi, item in enumerate(res.items):
			exp = W.closest_list(qi, N)
			got = [keys.index(m.genome.key) for m in item.closest_genomes]
			if got != exp:
				raise Violation('closest_order', f'query {qi}: closest_genomes {got} (distances {[float(m.distance) for m in item.closest_genomes]}) '
				                f'!= expected (distance, reference order) prefix {exp}; reference order {W.ref_order}', case)
			for m, j in zip(item.closest_genomes, exp):
				if float(m.distance) != W.dist(qi, j):
					raise Violation('closest_distance', f'query {qi} genome {j}: distance {float(m.distance)!r} != {W.dist(qi, j)!r}', case)
				mt = W.forest.match(W.w['genomes'][j]['taxon'], W.dist(qi, j))
				gk = None if m.matched_taxon is None else m.matched_taxon.key
				if gk != (None if mt is None else f'world/t{mt}'):
					raise Violation('closest_matched_taxon', f'query {qi} genome {j}: matched taxon {gk}, expected {mt}', case)
			if item.closest_genomes[0].genome is not item.classifier_result.closest_match.genome:
				raise Violation('first_not_closest_match', f'query {qi}: closest_genomes[0] differs from classifier closest_match', case)
			full = W.closest_list(qi, min(N + 1, nref))
			if any(W.dbits[qi][a] == W.dbits[qi][b] for a, b in zip(full, full[1:])):
				tie = True
		# the same list as the JSON and CSV outputs show it
		import io, csv as _csv
		from gambit.results import JSONResultsExporter, CSVResultsExporter
		try:
			jb, cb = io.StringIO(), io.StringIO()
			JSONResultsExporter().export(jb, res)
			CSVResultsExporter().export(cb, res)
			jdata = json.loads(jb.getvalue())
			rows = list(_csv.reader(io.StringIO(cb.getvalue(), newline='')))
		except Exception as e:
			raise Violation('exception', f'export of the results raised {type(e).__name__}: {e}', case)
		col = rows[0].index('closest.description')
		for qi, item in enumerate(jdata['items']):
			exp = W.closest_list(qi, N)
			got = [keys.index(m['genome']['key']) for m in item['closest_genomes']]
			if got != exp:
				raise Violation('closest_order', f'query {qi}: JSON closest_genomes {got} != expected {exp}', case)
			for m, j in zip(item['closest_genomes'], exp):
				mt = W.forest.match(W.w['genomes'][j]['taxon'], W.dist(qi, j))
				gk = None if m.get('matched_taxon') is None else m['matched_taxon'].get('key')
				if float(m['distance']) != W.dist(qi, j) or gk != (None if mt is None else f'world/t{mt}'):
					raise Violation('json_entry', f'query {qi} genome {j}: JSON entry has distance {m["distance"]!r}, matched taxon {gk}; expected '
					                f'{W.dist(qi, j)!r}, {None if mt is None else f"world/t{mt}"}', case)
			if exp and rows[1 + qi][col] != item['closest_genomes'][0]['genome']['description']:
				raise Violation('csv_json_disagree', f'query {qi}: CSV closest.description {rows[1 + qi][col]!r} != JSON closest_genomes[0] '
				                f'{item["closest_genomes"][0]["genome"]["description"]!r}', case)
	finally:
		try:
			db.signatures.close(); db.session.close(); db.session.get_bind().dispose()
		except Exception:
			pass
	return {'nontrivial': tie, 'classes': ['world', f'nref={"<=16" if nref <= 16 else ">16"}', 'tie_in_prefix' if tie else 'no_tie'] + (['params_object_reused'] if case.get('reuse_params') else []) + (['second_genome_set_in_file'] if case.get('multi_set') else [])}


def run_subproc(case, ctx):
	from vlib.cli import run_cli_subprocess
	import csv
	W = Wd.get_world(ctx, case['world'], 'c09world')
	qd = ctx.fresh_dir('c09q')
	paths = []
	for qi in range(len(W.query_sigs)):
		p = os.path.join(qd, f'q{qi}.fasta')
		W.write_query(qi, p)
		paths.append(p)
	nref = len(W.ref_sigs)
	keys = [f['key'] for f in W.genome_fields]
	outputs = []
	tie = False
	for ci, cpu in enumerate(CPU_CONFIGS):
		for cores in case['cores']:
			out_json = os.path.join(qd, f'out{ci}_{cores}.json')
			out_csv = os.path.join(qd, f'out{ci}_{cores}.csv')
			env = {'NPY_DISABLE_CPU_FEATURES': cpu}
			for fmt, out in (('json', out_json), ('csv', out_csv)):
				r = run_cli_subprocess(['-d', W.dir, 'query', '-f', fmt, '-o', out, '--no-progress', '-c', str(cores)] + paths, env_extra=env)
				if r.exit_code != 0:
					raise Violation('exception', f'gambit query exited {r.exit_code}: {r.stderr[-400:]} (cpu features disabled: {cpu}, -c {cores})', case)
			data = json.load(open(out_json))
			rows = list(csv.reader(open(out_csv, newline='')))
			hdr = rows[0]
			col = hdr.index('closest.description')
			lists = []
			for qi, item in enumerate(data['items']):
				got = [keys.index(m['genome']['key']) for m in item['closest_genomes']]
				exp = W.closest_list(qi, 10)
				if got != exp:
					raise Violation('closest_order', f'query {qi}: JSON closest_genomes {got} != expected {exp} (cpu features disabled: {cpu}, -c {cores})', case)
				for m, j in zip(item['closest_genomes'], exp):
					# every listed entry carries its exact distance and the taxon that distance alone assigns (reportable or not)
					mt = W.forest.match(W.w['genomes'][j]['taxon'], W.dist(qi, j))
					gk = None if m.get('matched_taxon') is None else m['matched_taxon'].get('key')
					if float(m['distance']) != W.dist(qi, j) or gk != (None if mt is None else f'world/t{mt}'):
						raise Violation('json_entry', f'query {qi} genome {j}: JSON entry has distance {m["distance"]!r}, matched taxon {gk}; expected '
						                f'{W.dist(qi, j)!r}, {None if mt is None else f"world/t{mt}"} (cpu: {cpu}, -c {cores})', case)
				if rows[1 + qi][col] != item['closest_genomes'][0]['genome']['description']:
					raise Violation('csv_json_disagree', f'query {qi}: CSV closest.description {rows[1 + qi][col]!r} != JSON closest_genomes[0] '
					                f'{item["closest_genomes"][0]["genome"]["description"]!r} (cpu: {cpu}, -c {cores})', case)
				lists.append(item['closest_genomes'])
				full = W.closest_list(qi, min(11, nref))
				if any(W.dbits[qi][a] == W.dbits[qi][b] for a, b in zip(full, full[1:])):
					tie = True
			outputs.append((cpu, cores, json.dumps(lists, sort_keys=True)))
	ref = outputs[0][2]
	for cpu, cores, o in outputs[1:]:
		if o != ref:
			raise Violation('config_dependent', f'closest_genomes differ between configurations (cpu: {cpu}, -c {cores}) and the first one', case)
	import shutil
	shutil.rmtree(qd, ignore_errors=True)
	return {'evals': len(outputs), 'nontrivial': tie, 'nontrivial_count': len(outputs) if tie else 0,
	        'classes': ['subproc', f'nref={"<=16" if nref <= 16 else ">16"}', 'tie_in_prefix' if tie else 'no_tie']}


@st.composite
def gen_case(draw, tier):
	which = draw(st.sampled_from(['row'] * 12 + ['world'] * 3 + (['subproc'] if tier == 'thorough' else [])))
	if which == 'row':
		n = draw(st.one_of(st.integers(1, 16), st.integers(17, 100), st.integers(17, 1000), st.integers(258, 1200)))
		return {'kind': 'row', 'n': n, 'seed': draw(st.integers(0, 2 ** 20)), 'min_from': draw(st.sampled_from([None, None, 257, 300, 130, 1000])),
		        'values': draw(st.lists(taxgen.DIST, min_size=2, max_size=5)),
		        'taxa': draw(taxgen.forest(max_taxa=6)),
		        'report_closest': draw(st.sampled_from([10, 1, 2, 3, 'n', 'n+5'])),
		        'strict': draw(st.sampled_from([False, False, True]))}
	w = draw(Wd.world(max_refs=40, min_refs=1, max_queries=3, ties=True))
	if which == 'world':
		return {'kind': 'world', 'world': w, 'report_closest': draw(st.sampled_from([10, 1, 3, 'n', 'n+5'])),
		        'chunksize': draw(st.sampled_from([1000, None, 1, 3, 7])), 'reuse_params': draw(st.sampled_from([False, True, False])),
		        'multi_set': draw(st.sampled_from([None, 'decoy_first', None, 'decoy_last']))}
	return {'kind': 'subproc', 'world': w, 'cores': draw(st.sampled_from([[1, 4], [1], [4, 16], [2]]))}


def strategy(tier):
	return gen_case(tier)


def enum_cases(tier):
	"""A few fixed configuration-differential cases (subprocess runs are expensive: not generated in the quick tier)."""
	nsub = 3 if tier == 'quick' else 12
	for i in range(nsub):
		yield {'kind': 'subproc', 'world': FIXED_WORLDS(i), 'cores': [1, 4] if i % 2 == 0 else [16]}


def FIXED_WORLDS(i):
	rnd = random.Random(1000 + i)
	nref = [24, 40, 30, 18, 35, 20][i % 6]
	taxa = [{'parent': None, 'thr': {'kind': 'val', 'v': 0.9}, 'report': True, 'name': 'Genus', 'rank': 'genus', 'ncbi_id': 1},
	        {'parent': 0, 'thr': {'kind': 'val', 'v': 0.5}, 'report': True, 'name': 'Species one', 'rank': 'species', 'ncbi_id': 2},
	        {'parent': 0, 'thr': {'kind': 'val', 'v': 0.5}, 'report': True, 'name': 'Species two', 'rank': 'species', 'ncbi_id': None}]
	genomes = []
	for j in range(nref):
		dup = None if j < 3 else (rnd.randrange(0, 3) if rnd.random() < 0.7 else None)
		genomes.append({'anc': rnd.randrange(2), 'mut': rnd.choice([0.0, 0.02]), 'seed': rnd.randrange(1000), 'taxon': rnd.randrange(3),
		                'contigs': 1, 'dup_of': dup})
	queries = [{'kind': 'mutant', 'anc': q % 2, 'ref': 0, 'mut': 0.05, 'seed': 50 + q + i, 'contigs': 1} for q in range(3)]
	return {'k': 6, 'prefix': 'AT', 'taxa': taxa, 'anc': [{'seed': 1 + i, 'len': 1500}, {'seed': 2 + i, 'len': 1500}], 'genomes': genomes,
	        'queries': queries, 'id_attr': 'key', 'sig_perm_seed': i, 'extra_sigs': i % 2}
