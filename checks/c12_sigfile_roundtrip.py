"""C12 — signature files round-trip exactly and foreign files are refused."""

import random

from hypothesis import strategies as st

from vlib.harness import Violation
import os
from vlib import sigpayload as P

ID = 'C12'
LEVEL = 'exploration'
RULE = ('Generated round trips: k in 1..32 (index widths u1..u8, values up to 4^k-1), prefix 1..8 nt, 1..12 signatures incl. empty and '
        'all-empty collections, container in {SignatureArray, SignatureList, AnnotatedSignatures over either}, IDs absent / unique '
        'Unicode strings (incl. empty string) / int64 / uint64, metadata fields None/empty/Unicode with nested JSON extra, compression '
        'None/gzip(0-9)/lzf; after dump+load: k-mer spec, IDs (values and kind), metadata, every int index incl. negatives, drawn '
        'slices, index lists with repeats and boolean masks are compared with a Python-list model, dtype preserved, == with the '
        'original. Generated foreign files: byte strings (empty, text, FASTA, random, gzip, short prefixes of a valid file) and HDF5 files '
        'of another kind (random groups/datasets/attributes; signature-shaped files lacking only the marker; marker on a sub-group) must '
        'raise SignaturesFileError; files starting with the HDF5 magic but corrupt must raise some exception. Non-trivial: round trip '
        'with >= 2 signatures of different lengths, or a foreign file that is not empty; distinct by case hash.')
RULE += ' Further: payload composition (nested annotated wrappers, collection loaded from another file), numeric-looking and non-NFC string IDs.'
ASSUMPTIONS = ['ID and metadata strings contain no NUL and no lone surrogates (HDF5 variable-length strings cannot hold them; h5py raises)',
               'JSON extra contains no NaN/Infinity']
DEADLINE_S = {'quick': 240, 'thorough': 2400}


def budget(tier):
	return {'quick': 12000, 'thorough': 200000}[tier]


def run_case(case, ctx):
	import numpy as np
	kind = case['kind']
	if kind == 'roundtrip':
		return run_roundtrip(np, case, ctx)
	if kind == 'cli_info':
		return run_cli_info(np, case, ctx)
	if kind == 'foreign_bytes':
		return run_foreign_bytes(np, case, ctx)
	if kind == 'foreign_h5':
		return run_foreign_h5(np, case, ctx)
	raise ValueError(kind)


def run_roundtrip(np, case, ctx):
	from gambit.sigs.base import dump_signatures, load_signatures, AbstractSignatureArray
	p = case['payload']
	obj, spec, arrays, exp_ids, exp_meta = P.build(np, p, src_path=ctx.fresh_path('.src.gs'))
	path = ctx.fresh_path(case.get('fname', '.gs'))
	if case.get('path_as') == 'Path':
		import pathlib
		path = pathlib.Path(path)
	kw = {}
	if p['compression'] is not None:
		kw['compression'] = p['compression']
		if p['compression_opts'] is not None:
			kw['compression_opts'] = p['compression_opts']
	if case.get('rewrite'):
		# the path first holds ANOTHER signature file which is loaded and closed; then it is overwritten: nothing of the old file may survive
		from gambit.sigs.base import SignatureArray, AnnotatedSignatures, SignaturesMeta
		from gambit.kmers import KmerSpec
		old = SignatureArray([np.array([1, 2, 3], dtype='u2'), np.array([7], dtype='u2'), np.array([9, 11], dtype='u2'), np.array([], dtype='u2')], KmerSpec(6, 'CC'))
		dump_signatures(path, AnnotatedSignatures(old, ['old0', 'old1', 'old2', 'old3'], SignaturesMeta(id='OLD', name='old file', extra={'old': True})))
		with load_signatures(path) as o:
			_ = [o[i] for i in range(len(o))], list(o.ids), o.meta
	try:
		dump_signatures(path, obj, **kw)
	except Exception as e:
		raise Violation('dump_exception', f'dump_signatures raised {type(e).__name__}: {e}', case)
	try:
		loaded = load_signatures(path)
	except Exception as e:
		raise Violation('load_exception', f'load_signatures raised {type(e).__name__}: {e}', case)
	try:
		P.compare_loaded(np, loaded, p, spec, arrays, exp_ids, exp_meta, Violation, case)
		want_dt = np.dtype(p['dtype']) if p.get('dtype') else spec.index_dtype
		n = len(arrays)
		rnd = random.Random(case['idx_seed'])
		# drawn slices (all steps), index lists with repeats, boolean masks
		exprs = []
		for _ in range(6):
			a = rnd.choice([None] + list(range(-n - 1, n + 2)))
			b = rnd.choice([None] + list(range(-n - 1, n + 2)))
			c = rnd.choice([None, 1, -1, 2, -2, 3, n + 1, -(n + 1)])
			exprs.append(slice(a, b, c))
		for _ in range(3):
			exprs.append([rnd.randrange(-n, n) for _ in range(rnd.randrange(0, n + 3))])
			exprs.append(np.array([rnd.randrange(-n, n) for _ in range(rnd.randrange(1, n + 3))], dtype=np.int64))
		exprs.append([rnd.random() < 0.5 for _ in range(n)])
		exprs.append(np.array([rnd.random() < 0.5 for _ in range(n)], dtype=bool))
		for e in exprs:
			if isinstance(e, slice):
				exp = arrays[e]
			elif len(e) and isinstance(e[0], (bool, np.bool_)):
				exp = [a for a, f in zip(arrays, e) if f]
			else:
				exp = [arrays[i] for i in e]
			try:
				res = loaded[e]
			except Exception as ex:
				raise Violation('index_exception', f'loaded[{e!r}] raised {type(ex).__name__}: {ex}', case)
			if not isinstance(res, AbstractSignatureArray) or len(res) != len(exp) or not all(np.array_equal(x, y) and x.dtype == want_dt for x, y in zip(res, exp)):
				raise Violation('index_result', f'loaded[{e!r}] differs from the list model', case)
			if res.kmerspec != loaded.kmerspec or np.dtype(res.dtype) != want_dt:
				raise Violation('index_result', f'loaded[{e!r}] lost k-mer spec or dtype', case)
		base = obj.signatures if hasattr(obj, 'signatures') else obj
		if not (loaded == base) or not (base == loaded) or (loaded != base):
			raise Violation('eq_original', 'loaded collection does not compare equal to the original', case)
	finally:
		loaded.close()
		if p.get('wrap') == 'hdf5_source':
			try:
				src_name = obj.group.file.filename
				obj.close()
				os.unlink(src_name)
			except Exception:
				pass
	lens = {len(a) for a in arrays}
	classes = ['roundtrip', f'width={spec.index_dtype}', 'dtype=index_dtype' if not p.get('dtype') else 'dtype=wider_or_signed', f'container={p["container"]}', f'ids={p["idkind"]}',
	           f'compression={p["compression"]}', 'meta' if p['meta'] is not None else 'no_meta']
	classes.append(f'composed={p.get("wrap") or "directly"}')
	if case.get('rewrite'):
		classes.append('path_rewritten')
	if sum(len(a) for a in arrays) > 65536:
		classes.append('values>64Ki')
	if all(len(a) == 0 for a in arrays):
		classes.append('all_empty')
	elif 0 in lens:
		classes.append('some_empty')
	if p['meta'] and p['meta']['extra']:
		classes.append('extra_json')
	if p['k'] > 16 and any(len(a) and int(a[-1]) >= 2 ** 32 for a in arrays):
		classes.append('values>=2^32')
	if any(len(a) and int(a[-1]) == 4 ** p['k'] - 1 for a in arrays):
		classes.append('max_index_value')
	return {'nontrivial': len(arrays) >= 2 and len(lens) >= 2, 'classes': classes}


def run_cli_info(np, case, ctx):
	"""`gambit signatures info FILE [-j|-i]` reports what was written; on a foreign file it fails."""
	import json
	from vlib.cli import run_cli
	from gambit.sigs.base import dump_signatures
	p = dict(case['payload'])
	if p['meta'] is not None and p['meta'].get('extra') is None:
		# `info -j` cannot serialise metadata whose extra is None (AttributeError in the JSON converter); the property is about
		# load/dump, not about this report, so such payloads get an empty mapping here (observation recorded in DESIGN.md 8.3)
		p['meta'] = dict(p['meta'], extra={})
	obj, spec, arrays, exp_ids, exp_meta = P.build(np, p)
	path = ctx.fresh_path('.gs')
	dump_signatures(path, obj)
	r = run_cli(['signatures', 'info', '-j', path])
	if r.exit_code != 0:
		raise Violation('info_failed', f'signatures info -j failed: exit {r.exit_code} {r.stderr[-200:]} {r.exception!r}', case)
	try:
		data = json.loads(r.stdout)
	except ValueError as e:
		raise Violation('info_json', f'signatures info -j printed invalid JSON: {e}: {r.stdout[:200]!r}', case)
	want_meta = dict(exp_meta)
	if data.get('count') != len(arrays) or data.get('kmerspec') != {'k': p['k'], 'prefix': p['prefix']} or data.get('metadata') != want_meta:
		raise Violation('info_content', f'signatures info -j reports {data}, file holds count {len(arrays)}, spec {p["k"]}/{p["prefix"]}, metadata {want_meta}', case)
	kind, ids = exp_ids
	if all('\n' not in str(i) and '\r' not in str(i) for i in ids):
		r = run_cli(['signatures', 'info', '-i', path])
		if r.exit_code != 0:
			raise Violation('info_failed', f'signatures info -i failed: exit {r.exit_code} {r.stderr[-200:]} {r.exception!r}', case)
		got = r.stdout.split('\n')
		if got and got[-1] == '':
			got = got[:-1]
		if got != [str(i) for i in ids]:
			raise Violation('info_ids', f'signatures info -i printed {got!r}, file holds ids {ids!r}', case)
	r = run_cli(['signatures', 'info', path])
	if r.exit_code != 0:
		raise Violation('info_failed', f'signatures info failed: exit {r.exit_code} {r.stderr[-200:]} {r.exception!r}', case)
	# foreign file: must fail
	bad = ctx.fresh_path('.gs')
	open(bad, 'w').write('>x\nACGT\n')
	r = run_cli(['signatures', 'info', bad])
	if r.exit_code == 0:
		raise Violation('foreign_loaded', 'signatures info accepted a FASTA file', case)
	return {'nontrivial': len(arrays) >= 2, 'classes': ['cli_info', f'ids={p["idkind"]}']}


def _expect_refused(path, case, strict, what):
	from gambit.sigs.base import load_signatures, SignaturesFileError
	try:
		obj = load_signatures(path)
	except SignaturesFileError:
		return
	except Exception as e:
		if strict:
			raise Violation('wrong_refusal', f'{what}: refused with {type(e).__name__}: {e} instead of SignaturesFileError', case)
		return
	try:
		desc = f'{type(obj).__name__} of length {len(obj)}'
		obj.close()
	except Exception:
		desc = type(obj).__name__
	raise Violation('foreign_loaded', f'{what}: loaded as {desc} instead of being refused', case)


def _valid_file_bytes(np, ctx):
	if 'c12_valid' not in ctx.cache:
		from gambit.sigs.base import dump_signatures, SignatureArray
		from gambit.kmers import KmerSpec
		path = ctx.fresh_path('.gs')
		dump_signatures(path, SignatureArray([np.array([1, 5], dtype='u2'), np.array([2], dtype='u2')], KmerSpec(5, 'AT')))
		ctx.cache['c12_valid'] = open(path, 'rb').read()
	return ctx.cache['c12_valid']


def run_foreign_bytes(np, case, ctx):
	mode = case['mode']
	if mode == 'raw':
		data = case['data'].encode('latin-1')
	elif mode == 'valid_prefix':
		data = _valid_file_bytes(np, ctx)[:case['n']]
	elif mode == 'magic_plus':
		data = b'\x89HDF\r\n\x1a\n' + case['data'].encode('latin-1')
	elif mode == 'valid_truncated':
		v = _valid_file_bytes(np, ctx)
		data = v[:8 + case['n'] % (len(v) - 8)]
	elif mode == 'valid_corrupt':
		v = bytearray(_valid_file_bytes(np, ctx))
		rnd = random.Random(case['n'])
		for _ in range(1 + case['n'] % 4):
			pos = rnd.randrange(8, min(len(v), 600))
			v[pos] ^= 1 << rnd.randrange(8)
		data = bytes(v)
	elif mode == 'gzip':
		import gzip
		data = gzip.compress(case['data'].encode('latin-1'))
	elif mode == 'magic_at_offset':
		# the HDF5 signature is also recognised by the HDF5 library at offsets 512, 1024, ... (user block); a file that merely
		# CONTAINS it there - text followed by junk, or a tar archive whose first member is a signature file - is not a signature file
		off = [512, 1024, 2048, 4096][case['n'] % 4]
		head = (case['data'].encode('latin-1') + b'\n' + b'#' * off)[:off]
		tail = _valid_file_bytes(np, ctx) if case['n'] % 3 else b'\x89HDF\r\n\x1a\n' + bytes(random.Random(case['n']).randrange(256) for _ in range(300))
		data = head + tail
	elif mode == 'tar_of_sigfile':
		import io, tarfile
		buf = io.BytesIO()
		with tarfile.open(fileobj=buf, mode='w', format=[tarfile.USTAR_FORMAT, tarfile.GNU_FORMAT][case['n'] % 2]) as tf:
			blob = _valid_file_bytes(np, ctx)
			ti = tarfile.TarInfo('refs.gs')
			ti.size = len(blob)
			tf.addfile(ti, io.BytesIO(blob))
		data = buf.getvalue()
	else:
		raise ValueError(mode)
	path = ctx.fresh_path(case.get('ext', '.gs'))
	with open(path, 'wb') as f:
		f.write(data)
	is_h5 = data[:8] == b'\x89HDF\r\n\x1a\n'
	if mode == 'valid_corrupt':
		# a bit flip may leave the file valid: then it must load as *some* signature file or be refused - nothing asserted on content
		from gambit.sigs.base import load_signatures
		try:
			load_signatures(path).close()
		except Exception:
			pass
		return {'nontrivial': True, 'classes': ['foreign:valid_corrupt(no crash)']}
	_expect_refused(path, case, strict=not is_h5, what=f'{mode} file of {len(data)} bytes')
	return {'nontrivial': len(data) > 0, 'classes': ['foreign:' + mode, 'h5magic' if is_h5 else 'no_h5magic'], 'expects_rejection': True}


def run_foreign_h5(np, case, ctx):
	import h5py
	path = ctx.fresh_path(case.get('ext', '.h5'))
	rnd = random.Random(case['seed'])
	shape = case['shape']
	strict = True
	with h5py.File(path, 'w') as f:
		def rand_content(g, depth=0):
			for i in range(rnd.randrange(0, 4)):
				name = rnd.choice(['values', 'bounds', 'ids', 'data', 'x', 'table', 'gambit'])
				if name in g:
					continue
				if rnd.random() < 0.3 and depth < 2:
					rand_content(g.create_group(name), depth + 1)
				else:
					g.create_dataset(name, data=np.arange(rnd.randrange(0, 5), dtype=rnd.choice(['u2', 'i8', 'f4'])))
			for i in range(rnd.randrange(0, 3)):
				g.attrs[rnd.choice(['kmerspec_k', 'kmerspec_prefix', 'id', 'name', 'title', 'version'])] = rnd.choice([1, 'x', 2.5])
		if shape == 'random':
			rand_content(f)
		elif shape == 'sig_without_marker':
			f.attrs['kmerspec_k'] = 5
			f.attrs['kmerspec_prefix'] = 'AT'
			for a in ('id', 'name', 'id_attr', 'version', 'description', 'extra'):
				f.attrs[a] = h5py.Empty(h5py.string_dtype())
			f.create_dataset('ids', data=np.arange(2))
			f.create_dataset('values', data=np.array([1, 2, 3], dtype='u2'))
			f.create_dataset('bounds', data=np.array([0, 2, 3], dtype=np.intp))
			if case.get('near_marker'):
				f.attrs[rnd.choice(['gambit_signatures_versio', 'gambit_signatures_version_', 'GAMBIT_SIGNATURES_VERSION', 'gambit_signature_version'])] = 1
		elif shape == 'marker_on_subgroup':
			g = f.create_group(rnd.choice(['sigs', 'signatures', 'data']))
			g.attrs['gambit_signatures_version'] = 1
			g.attrs['kmerspec_k'] = 5
			g.attrs['kmerspec_prefix'] = 'AT'
			g.create_dataset('ids', data=np.arange(1))
			g.create_dataset('values', data=np.array([1], dtype='u2'))
			g.create_dataset('bounds', data=np.array([0, 1], dtype=np.intp))
		elif shape == 'empty_h5':
			pass
		elif shape == 'wrong_version':
			f.attrs['gambit_signatures_version'] = case['seed'] % 5 + 2
			f.attrs['kmerspec_k'] = 5
			f.attrs['kmerspec_prefix'] = 'AT'
			f.create_dataset('ids', data=np.arange(1))
			f.create_dataset('values', data=np.array([1], dtype='u2'))
			f.create_dataset('bounds', data=np.array([0, 1], dtype=np.intp))
			strict = False   # a signature file of an unknown version: must be refused, error class not specified
		else:
			raise ValueError(shape)
	_expect_refused(path, case, strict=strict, what=f'HDF5 file ({shape})')
	return {'nontrivial': True, 'classes': ['foreign_h5:' + shape], 'expects_rejection': True}


FASTA = st.lists(st.tuples(st.text(alphabet='abcXYZ019_ |', max_size=10), st.text(alphabet='ACGTN\n', max_size=80)), max_size=4).map(
	lambda recs: ''.join(f'>{h}\n{s}\n' for h, s in recs))


@st.composite
def gen_case(draw, tier):
	which = draw(st.sampled_from(['roundtrip', 'foreign_bytes', 'roundtrip', 'foreign_h5', 'roundtrip', 'foreign_bytes', 'cli_info']))
	if which == 'cli_info':
		return {'kind': 'cli_info', 'payload': draw(P.payload(max_sigs=6))}
	if which == 'roundtrip':
		return {'kind': 'roundtrip', 'payload': draw(P.payload(allow_big=(tier == 'thorough'), allow_medium=True, medium_rate=(40 if tier == 'thorough' else 100))), 'idx_seed': draw(st.integers(0, 2 ** 20)),
		        'path_as': draw(st.sampled_from(['str', 'Path'])), 'rewrite': draw(st.sampled_from([False, False, True])), 'fname': draw(st.sampled_from(['.gs', '.h5', ' with space.gs', '-ünï.gs', '.GS', '']))}
	ext = draw(st.sampled_from(['.gs', '.h5', '.txt', '.fasta', '']))
	if which == 'foreign_bytes':
		mode = draw(st.sampled_from(['raw', 'raw', 'valid_prefix', 'magic_plus', 'valid_truncated', 'valid_corrupt', 'gzip', 'magic_at_offset', 'tar_of_sigfile']))
		if mode in ('raw', 'gzip'):
			data = draw(st.one_of(st.just(''), st.text(max_size=60).map(lambda s: s.encode('utf-8').decode('latin-1')), FASTA,
			                      st.binary(max_size=200).map(lambda b: b.decode('latin-1')),
			                      st.sampled_from(['\x89HDF', '\x89HDF\r\n\x1a', 'HDF\r\n\x1a\n', '\x89hdf\r\n\x1a\n', 'SQLite format 3\x00'])))
			return {'kind': 'foreign_bytes', 'mode': mode, 'data': data, 'ext': ext}
		if mode == 'valid_prefix':
			return {'kind': 'foreign_bytes', 'mode': mode, 'n': draw(st.integers(0, 7)), 'ext': ext}
		if mode == 'magic_at_offset':
			return {'kind': 'foreign_bytes', 'mode': mode, 'n': draw(st.integers(0, 1000)), 'data': draw(st.text(alphabet='abc >\n', max_size=40)), 'ext': ext}
		if mode == 'magic_plus':
			return {'kind': 'foreign_bytes', 'mode': mode, 'data': draw(st.binary(max_size=300)).decode('latin-1'), 'ext': ext}
		return {'kind': 'foreign_bytes', 'mode': mode, 'n': draw(st.integers(0, 10 ** 6)), 'ext': ext}
	shape = draw(st.sampled_from(['random', 'sig_without_marker', 'marker_on_subgroup', 'empty_h5', 'wrong_version', 'sig_without_marker']))
	return {'kind': 'foreign_h5', 'shape': shape, 'seed': draw(st.integers(0, 2 ** 20)), 'near_marker': draw(st.booleans()), 'ext': ext}


def strategy(tier):
	return gen_case(tier)
