"""C11 — every export format is a faithful image of the query results."""

import csv
import os
import datetime
import io
import json
import random

from hypothesis import strategies as st

from vlib.harness import Violation
from vlib import world as Wd
from vlib.refmodel import jaccard as RJ
from checks import worldcheck as WC

ID = 'C11'
LEVEL = 'exploration'
RULE = ('Generated result sets, two ways: (a) real gambit.query.query runs on synthetic worlds (strict and non-strict, drawn chunksize / '
        'report_closest, nasty taxon names and genome descriptions, labels from a nasty-text alphabet or SequenceFile inputs; unreportable '
        'predictions, no prediction, conflicts -> warnings, no common ancestor -> error); (b) synthetic QueryResults assembled from '
        'generated ClassifierResults over the world\'s ORM objects with file=None, extra JSON metadata, arbitrary timestamps and versions, '
        'drawn QueryParams (incl. chunksize None). Each result set is exported as CSV, JSON and archive. Oracle: CSV parsed with '
        'csv.reader(newline="") -> header == documented columns, row i cell-by-cell == str(attribute) / "" of item i, distance parses back '
        'to the same binary32; JSON is strict JSON and carries the same label, reported / next taxon and closest-genome data; CSV and '
        'JSON agree; archive read back on the same session and on a fresh session equals the original by a deep structural comparison '
        '(ORM objects by key, distances by bits, warnings, error, success, params, label, file, timestamp, version, extra) and by the '
        'classes\' own ==. Non-trivial: >= 1 item with a prediction and >= 1 special character (comma, quote, newline, non-ASCII) in a '
        'label or name; distinct by case hash.')
ASSUMPTIONS = ['generated text contains no NUL and no lone CR; lone surrogates only as produced by surrogateescape decoding of file names (JSON/archive only: CSV text with them cannot be encoded by any exporter)',
               'text contains no lone CR (csv.writer with lineterminator="\\n" does not quote a lone CR; '
               '"newlines" is read as LF / CRLF)', 'labels are str (QueryInput.label is annotated str)']
DEADLINE_S = {'quick': 240, 'thorough': 2400}

TEXT = st.text(alphabet=st.characters(blacklist_characters='\x00\r', blacklist_categories=('Cs',)), max_size=15)
NASTY = st.sampled_from(['a,b', '"q"', "it's", 'line\nbreak', 'crlf\r\nx', 'ünï', '日本語', ' lead', 'trail ', '', '=1+1', 'tab\tx', 'plain', ',', '""', '\n'])
# file names that are not valid UTF-8 reach Python as str with lone surrogates (surrogateescape): legitimate labels of real files
UNDECODABLE = st.sampled_from(['caf\udce9', 'g\udcfc\udcdf.fasta', '\udcff'])
LABEL = st.one_of(TEXT, NASTY, st.text(alphabet='abcXYZ019_.-', min_size=1, max_size=10), TEXT, UNDECODABLE)
JSON_LEAF = st.one_of(st.none(), st.booleans(), st.integers(-2 ** 60, 2 ** 60), st.floats(allow_nan=False, allow_infinity=False), TEXT)
JSON_VAL = st.recursive(JSON_LEAF, lambda ch: st.one_of(st.lists(ch, max_size=3), st.dictionaries(TEXT, ch, max_size=3)), max_leaves=8)


def budget(tier):
	return {'quick': 1500, 'thorough': 25000}[tier]


def f32(x):
	import numpy as np
	return np.float32(x)


def dist_equal(a, b):
	"""a original (np.float32 or float), b read back."""
	import numpy as np
	if isinstance(a, np.floating) and a.dtype == np.float32:
		return RJ.float_to_bits(a) == RJ.float_to_bits(b) and float(a) == float(b)
	return float(a) == float(b)


def deep_compare(a, b, case, where):
	"""a: original QueryResults, b: read back. ORM objects by key."""
	def k(o):
		return None if o is None else o.key

	def fail(what, x, y):
		raise Violation('archive_differs:' + what.split('[')[0], f'{where}: {what}: original {x!r}, read back {y!r}', case)

	def gm(x, y, what):
		if (x is None) != (y is None):
			fail(what, x, y)
		if x is None:
			return
		if k(x.genome) != k(y.genome):
			fail(what + '.genome', k(x.genome), k(y.genome))
		if not dist_equal(x.distance, y.distance):
			fail(what + '.distance', x.distance, y.distance)
		if k(x.matched_taxon) != k(y.matched_taxon):
			fail(what + '.matched_taxon', k(x.matched_taxon), k(y.matched_taxon))
	if len(a.items) != len(b.items):
		fail('len(items)', len(a.items), len(b.items))
	for i, (x, y) in enumerate(zip(a.items, b.items)):
		w = f'items[{i}]'
		if x.input.label != y.input.label or type(y.input.label) is not str:
			fail(w + '.input.label', x.input.label, y.input.label)
		if (x.input.file is None) != (y.input.file is None):
			fail(w + '.input.file', x.input.file, y.input.file)
		if x.input.file is not None and (str(x.input.file.path) != str(y.input.file.path) or x.input.file.format != y.input.file.format
		                                 or x.input.file.compression != y.input.file.compression):
			fail(w + '.input.file', x.input.file, y.input.file)
		cx, cy = x.classifier_result, y.classifier_result
		if cx.success != cy.success:
			fail(w + '.success', cx.success, cy.success)
		if k(cx.predicted_taxon) != k(cy.predicted_taxon):
			fail(w + '.predicted_taxon', k(cx.predicted_taxon), k(cy.predicted_taxon))
		gm(cx.primary_match, cy.primary_match, w + '.primary_match')
		gm(cx.closest_match, cy.closest_match, w + '.closest_match')
		if k(cx.next_taxon) != k(cy.next_taxon):
			fail(w + '.next_taxon', k(cx.next_taxon), k(cy.next_taxon))
		if list(cx.warnings) != list(cy.warnings):
			fail(w + '.warnings', cx.warnings, cy.warnings)
		if cx.error != cy.error:
			fail(w + '.error', cx.error, cy.error)
		if k(x.report_taxon) != k(y.report_taxon):
			fail(w + '.report_taxon', k(x.report_taxon), k(y.report_taxon))
		if len(x.closest_genomes) != len(y.closest_genomes):
			fail(w + '.closest_genomes', len(x.closest_genomes), len(y.closest_genomes))
		for j, (p, q) in enumerate(zip(x.closest_genomes, y.closest_genomes)):
			gm(p, q, w + f'.closest_genomes[{j}]')
	pa, pb = a.params, b.params
	if (pa is None) != (pb is None) or (pa is not None and (pa.classify_strict, pa.chunksize, pa.report_closest) != (pb.classify_strict, pb.chunksize, pb.report_closest)):
		fail('params', pa, pb)
	if (a.genomeset.key, a.genomeset.version) != (b.genomeset.key, b.genomeset.version):
		fail('genomeset', a.genomeset.key, b.genomeset.key)
	ma, mb = a.signaturesmeta, b.signaturesmeta
	if (ma is None) != (mb is None) or (ma is not None and ma != mb):
		fail('signaturesmeta', ma, mb)
	if a.gambit_version != b.gambit_version:
		fail('gambit_version', a.gambit_version, b.gambit_version)
	if a.timestamp != b.timestamp or a.timestamp.utcoffset() != b.timestamp.utcoffset():
		fail('timestamp', a.timestamp.isoformat(), b.timestamp.isoformat())
	if a.extra != b.extra:
		fail('extra', a.extra, b.extra)


def attr_path(obj, path):
	for p in path.split('.'):
		if obj is None:
			return None
		obj = getattr(obj, p)
	return obj


CSV_COLUMNS = [
	('query', 'input.label'), ('predicted.name', 'report_taxon.name'), ('predicted.rank', 'report_taxon.rank'),
	('predicted.ncbi_id', 'report_taxon.ncbi_id'), ('predicted.threshold', 'report_taxon.distance_threshold'),
	('closest.distance', 'classifier_result.closest_match.distance'),
	('closest.description', 'classifier_result.closest_match.genome.description'),
	('next.name', 'classifier_result.next_taxon.name'), ('next.rank', 'classifier_result.next_taxon.rank'),
	('next.ncbi_id', 'classifier_result.next_taxon.ncbi_id'), ('next.threshold', 'classifier_result.next_taxon.distance_threshold'),
]


def run_case(case, ctx):
	import numpy as np
	from gambit.query import query, QueryParams, QueryInput, QueryResults, QueryResultItem
	from gambit.classify import ClassifierResult, GenomeMatch
	from gambit.seq import SequenceFile
	from gambit.results import CSVResultsExporter, JSONResultsExporter, ResultsArchiveWriter, ResultsArchiveReader
	from gambit.db.sqla import file_sessionmaker

	W = Wd.get_world(ctx, case['world'], 'c11world')
	db = W.load_db(case.get('multi_set'))
	session2 = None
	classes = set(['second_genome_set_in_file'] if case.get('multi_set') else [])
	try:
		nq = len(W.query_sigs)
		labels = case['labels']
		kind = case['kind']
		if kind == 'real':
			qs = [np.array(W.query_sigs[q % nq], dtype=W.dtype) for q in case['order']]
			inputs = []
			for i in range(len(qs)):
				lab = labels[i % len(labels)]
				if case['file_inputs'] and i % 2 == 0:
					inputs.append(QueryInput(lab, SequenceFile(f'/some/dir/{i}/genome {i}.fasta', 'fasta', [None, 'gzip', 'auto'][i % 3])))
				else:
					inputs.append(QueryInput(lab))
			try:
				res = query(db, qs, classify_strict=case['strict'], chunksize=case['chunksize'], report_closest=case['report_closest'], inputs=inputs)
			except Exception as e:
				raise Violation('exception', f'query raised {type(e).__name__}: {e}', case)
			classes.add('real_strict' if case['strict'] else 'real_nonstrict')
		else:
			rnd = random.Random(case['seed'])
			taxa = db.genomeset.taxa.all()
			genomes = list(db.genomes)

			def opt_taxon():
				return rnd.choice(taxa) if rnd.random() < 0.7 else None

			def dist():
				v = rnd.choice(case['dists'])
				return np.float32(v) if case['f32'] else float(v)

			def match(optional=False):
				if optional and rnd.random() < 0.3:
					return None
				return GenomeMatch(rnd.choice(genomes), dist(), opt_taxon())
			items = []
			for i, spec in enumerate(case['items']):
				cr = ClassifierResult(success=spec['success'], predicted_taxon=opt_taxon(), primary_match=match(True), closest_match=match(),
				                      next_taxon=opt_taxon(), warnings=list(spec['warnings']), error=spec['error'])
				lab = labels[i % len(labels)]
				f = SequenceFile(spec['path'], 'fasta', spec['compression']) if spec['path'] is not None else None
				items.append(QueryResultItem(input=QueryInput(lab, f), classifier_result=cr, report_taxon=opt_taxon(),
				                             closest_genomes=[match() for _ in range(spec['nclosest'])]))
			p = case['params']
			res = QueryResults(items=items, params=QueryParams(classify_strict=p[0], chunksize=p[1], report_closest=p[2]),
			                   genomeset=db.genomeset, signaturesmeta=db.signatures.meta, gambit_version=case['version'],
			                   timestamp=datetime.datetime.fromisoformat(case['timestamp']), extra=case['extra'])
			classes.add('synthetic')
			if '+' in case['timestamp'][10:] or '-' in case['timestamp'][10:]:
				classes.add('timestamp_with_utc_offset')

		# ---- CSV ----
		buf = io.StringIO()
		try:
			CSVResultsExporter().export(buf, res)
		except Exception as e:
			raise Violation('exception', f'CSV export raised {type(e).__name__}: {e}', case)
		rows = list(csv.reader(io.StringIO(buf.getvalue(), newline='')))
		if rows[0] != [c for c, _ in CSV_COLUMNS]:
			raise Violation('csv_header', f'CSV header {rows[0]}', case)
		if len(rows) - 1 != len(res.items):
			raise Violation('csv_rows', f'{len(rows) - 1} CSV rows for {len(res.items)} items', case)
		for i, (item, row) in enumerate(zip(res.items, rows[1:])):
			if len(row) != len(CSV_COLUMNS):
				raise Violation('csv_cells', f'CSV row {i} has {len(row)} cells', case)
			for (col, path), cell in zip(CSV_COLUMNS, row):
				v = attr_path(item, path)
				if col == 'closest.distance':
					try:
						ok = dist_equal(v, float(cell)) if not isinstance(v, np.floating) else RJ.float_to_bits(float(cell)) == RJ.float_to_bits(v)
					except ValueError:
						ok = False
				elif col.endswith('.threshold') and v is not None:
					try:
						ok = float(cell) == float(v)
					except ValueError:
						ok = False
				else:
					ok = cell == ('' if v is None else str(v))
				if not ok:
					raise Violation('csv_cell:' + col, f'CSV row {i} column {col}: parsed {cell!r}, results object has {v!r}', case)

		# ---- JSON ----
		buf = io.StringIO()
		try:
			JSONResultsExporter(pretty=bool(case.get('pretty'))).export(buf, res)
		except Exception as e:
			raise Violation('exception', f'JSON export raised {type(e).__name__}: {e}', case)

		def bad_const(c):
			raise ValueError(f'non-standard JSON constant {c}')
		try:
			data = json.loads(buf.getvalue(), parse_constant=bad_const)
		except ValueError as e:
			raise Violation('json_invalid', f'JSON export is not valid JSON: {e}', case)
		if len(data['items']) != len(res.items):
			raise Violation('json_items', f'{len(data["items"])} JSON items for {len(res.items)} results', case)

		def jt(d, t, what, i):
			if t is None:
				if d is not None:
					raise Violation('json_taxon', f'JSON item {i} {what}: {d}, results object has None', case)
				return
			exp = {'id': t.id, 'key': t.key, 'name': t.name, 'ncbi_id': t.ncbi_id, 'rank': t.rank, 'distance_threshold': t.distance_threshold}
			if d != exp:
				raise Violation('json_taxon', f'JSON item {i} {what}: {d}, results object has {exp}', case)
		for i, (item, d) in enumerate(zip(res.items, data['items'])):
			if d['query']['name'] != item.input.label:
				raise Violation('json_label', f'JSON item {i} query.name {d["query"]["name"]!r} != label {item.input.label!r}', case)
			if item.input.file is None:
				if d['query']['path'] is not None:
					raise Violation('json_path', f'JSON item {i} has a path although the input has no file', case)
			elif d['query']['path'] != str(item.input.file.path):
				raise Violation('json_path', f'JSON item {i} path {d["query"]["path"]!r} != {str(item.input.file.path)!r}', case)
			jt(d['predicted_taxon'], item.report_taxon, 'predicted_taxon', i)
			jt(d['next_taxon'], item.classifier_result.next_taxon, 'next_taxon', i)
			if len(d['closest_genomes']) != len(item.closest_genomes):
				raise Violation('json_closest', f'JSON item {i}: {len(d["closest_genomes"])} closest genomes, results object has {len(item.closest_genomes)}', case)
			for j, (g, m) in enumerate(zip(d['closest_genomes'], item.closest_genomes)):
				if g['genome']['key'] != m.genome.key or g['genome']['description'] != m.genome.description or not dist_equal(m.distance, g['distance']):
					raise Violation('json_closest', f'JSON item {i} closest_genomes[{j}] = {g["genome"]["key"]} at {g["distance"]!r}; results object has '
					                f'{m.genome.key} at {float(m.distance)!r}', case)
				jt(g['matched_taxon'], m.matched_taxon, f'closest_genomes[{j}].matched_taxon', i)
			# CSV and JSON agree
			row = rows[1 + i]
			pn = '' if d['predicted_taxon'] is None else str(d['predicted_taxon']['name'])
			if row[1] != pn or row[0] != d['query']['name']:
				raise Violation('csv_json_disagree', f'item {i}: CSV ({row[0]!r}, {row[1]!r}) vs JSON ({d["query"]["name"]!r}, {pn!r})', case)
			if kind == 'real' and d['closest_genomes'] and (row[6] != d['closest_genomes'][0]['genome']['description']
			                                                or RJ.float_to_bits(float(row[5])) != RJ.float_to_bits(d['closest_genomes'][0]['distance'])):
				raise Violation('csv_json_disagree', f'item {i}: CSV closest ({row[6]!r}, {row[5]}) vs JSON closest_genomes[0] '
				                f'({d["closest_genomes"][0]["genome"]["description"]!r}, {d["closest_genomes"][0]["distance"]})', case)

		# ---- archive ----
		buf = io.StringIO()
		try:
			ResultsArchiveWriter(pretty=bool(case.get('pretty'))).export(buf, res)
		except Exception as e:
			raise Violation('exception', f'archive export raised {type(e).__name__}: {e}', case)
		try:
			json.loads(buf.getvalue(), parse_constant=bad_const)
		except ValueError as e:
			raise Violation('json_invalid', f'archive export is not valid JSON: {e}', case)
		# several reader objects live side by side (one per open database in a service): the one created FIRST does the reading
		reader1 = ResultsArchiveReader(db.session)
		reader_newer = ResultsArchiveReader(db.session)
		try:
			back = reader1.read(io.StringIO(buf.getvalue()))
		except Exception as e:
			raise Violation('archive_unreadable', f'archive cannot be read back: {type(e).__name__}: {str(e)[:300]} (params {res.params})', case)
		deep_compare(res, back, case, 'archive (same session)')
		if not (back == res):
			raise Violation('archive_not_equal', 'archive read back on the same session does not compare == to the original (deep comparison found no difference)', case)
		# ---- the same exports written to real files (the CLI's -o path): encoding of the text matters here ----
		has_surrogate = any(0xD800 <= ord(ch) <= 0xDFFF for it in res.items for ch in it.input.label)
		jpath = ctx.fresh_path('.json')
		apath = ctx.fresh_path('.json')
		# exporter objects are re-used for the whole life of the worker (a long-running service would do that), and every
		# other case the destination already holds a longer, older export
		jexp, cexp, aexp = ctx.cache.setdefault('c11_exporters', (JSONResultsExporter(), CSVResultsExporter(), ResultsArchiveWriter()))
		import zlib
		stale = zlib.crc32(json.dumps(case, sort_keys=True, default=str).encode('utf-8', 'surrogatepass')) % 2 == 0   # a function of the case: replayable
		if stale:
			for pth in (jpath, apath):
				with open(pth, 'w', encoding='utf-8') as f:
					f.write('{"items": [' + ', '.join(['{"old": true}'] * 2000) + ']}\n')
			classes.add('output_path_preexists')
		try:
			jexp.export(jpath, res)
			aexp.export(apath, res)
		except Exception as e:
			raise Violation('exception', f'export to a file path raised {type(e).__name__}: {e}', case)
		try:
			jdata = json.loads(open(jpath, 'rb').read().decode('utf-8', 'surrogateescape'), parse_constant=bad_const)
		except ValueError as e:
			raise Violation('json_invalid', f'JSON file written by the exporter is not valid JSON: {e}', case)
		if [d['query']['name'] for d in jdata['items']] != [it.input.label for it in res.items]:
			raise Violation('json_label', 'labels in the JSON file differ from the results object', case)
		try:
			back_f = reader1.read(apath)
		except Exception as e:
			raise Violation('archive_unreadable', f'archive file cannot be read back: {type(e).__name__}: {str(e)[:300]}', case)
		deep_compare(res, back_f, case, 'archive (file)')
		if not has_surrogate:
			cpath = ctx.fresh_path('.csv')
			if stale:
				with open(cpath, 'w', encoding='utf-8') as f:
					f.write('old,row\n' * 5000)
			try:
				cexp.export(cpath, res)
			except Exception as e:
				raise Violation('exception', f'CSV export to a file path raised {type(e).__name__}: {e}', case)
			with open(cpath, newline='', encoding='utf-8') as f:
				if list(csv.reader(f)) != rows:
					raise Violation('csv_file_differs', 'CSV written to a file path parses differently from the CSV written to a stream', case)
			os.unlink(cpath)
		os.unlink(jpath); os.unlink(apath)
		if has_surrogate:
			classes.add('label_from_undecodable_file_name')
		session2 = file_sessionmaker(os.path.join(W.dir + '.multi', case['multi_set'] + '.gdb') if case.get('multi_set') else W.gdb_path)()
		try:
			back2 = ResultsArchiveReader(session2).read(io.StringIO(buf.getvalue()))
		except Exception as e:
			raise Violation('archive_unreadable', f'archive cannot be read back on a fresh session: {type(e).__name__}: {str(e)[:300]}', case)
		deep_compare(res, back2, case, 'archive (fresh session)')
		# ... and the first reader still works after a reader for another session was created and used
		try:
			back3 = reader1.read(io.StringIO(buf.getvalue()))
		except Exception as e:
			raise Violation('archive_unreadable', f'archive cannot be read back by a reader created before another reader: {type(e).__name__}: {str(e)[:300]}', case)
		deep_compare(res, back3, case, 'archive (first reader, after others)')
		if not (back3 == res):
			raise Violation('archive_not_equal', 'archive read by the first reader after another reader was used does not compare == to the original', case)

		special = any(any(ch in (x or '') for ch in ',"\n') or any(ord(ch) > 127 for ch in (x or ''))
		              for it in res.items for x in (it.input.label, getattr(it.report_taxon, 'name', None),
		                                            it.classifier_result.closest_match.genome.description))
		predicted = any(it.report_taxon is not None for it in res.items)
		for it in res.items:
			cr = it.classifier_result
			if cr.warnings:
				classes.add('warnings')
			if cr.error:
				classes.add('error')
			if not cr.success:
				classes.add('failed')
			if cr.predicted_taxon is None:
				classes.add('no_prediction')
			elif it.report_taxon is not cr.predicted_taxon:
				classes.add('unreportable_or_other_report_taxon')
			if it.input.file is None:
				classes.add('no_file')
			else:
				classes.add('with_file')
		if res.params.chunksize is None:
			classes.add('chunksize_none')
		if special:
			classes.add('special_chars')
		return {'nontrivial': predicted and special, 'classes': sorted(classes)}
	finally:
		try:
			db.signatures.close(); db.session.close(); db.session.get_bind().dispose()
			if session2 is not None:
				session2.close(); session2.get_bind().dispose()
		except Exception:
			pass


@st.composite
def gen_case(draw, tier):
	w = draw(Wd.world(max_refs=6, max_queries=4, thr=WORLD_THR_C11))
	labels = draw(st.lists(LABEL, min_size=1, max_size=6))
	pretty = draw(st.sampled_from([False, False, True]))
	if draw(st.booleans()):
		return {'kind': 'real', 'pretty': pretty, 'world': w, 'labels': labels, 'order': draw(st.lists(st.integers(0, 10), min_size=1, max_size=5)),
		        'strict': draw(st.booleans()), 'chunksize': draw(st.sampled_from([1000, 1, 3, None, 1000])),
		        'report_closest': draw(st.sampled_from([10, 1, 3, 50])), 'file_inputs': draw(st.booleans()),
		        'multi_set': draw(st.sampled_from([None, 'decoy_first', None, 'decoy_last']))}
	items = draw(st.lists(st.fixed_dictionaries({
		'success': st.booleans(), 'warnings': st.lists(TEXT, max_size=3), 'error': st.one_of(st.none(), TEXT),
		'path': st.one_of(st.none(), st.text(alphabet='abc/ ü.,', min_size=1, max_size=15).map(lambda s: '/' + s)),
		'compression': st.sampled_from([None, 'gzip', 'auto']), 'nclosest': st.integers(0, 4),
	}), min_size=0, max_size=5))
	# naive (what the default factory gives) and time-zone-aware timestamps (datetime.now(timezone.utc), .astimezone())
	tzs = [datetime.timezone.utc, datetime.timezone(datetime.timedelta(hours=5, minutes=30)), datetime.timezone(datetime.timedelta(hours=-8), 'PST')]
	ts = draw(st.datetimes(min_value=datetime.datetime(1970, 1, 2), max_value=datetime.datetime(2100, 1, 1),
	                       timezones=st.one_of(st.none(), st.none(), st.sampled_from(tzs))))
	return {'kind': 'synthetic', 'pretty': pretty, 'world': w, 'labels': labels, 'seed': draw(st.integers(0, 2 ** 20)), 'items': items,
	        'dists': draw(st.lists(st.floats(0, 1, width=32), min_size=1, max_size=5)), 'f32': draw(st.sampled_from([True, True, False])),
	        'params': [draw(st.booleans()), draw(st.sampled_from([1000, None, 1, 77])), draw(st.integers(1, 100))],
	        'version': draw(st.one_of(st.just('1.0.1'), TEXT)), 'timestamp': ts.isoformat(),
	        'extra': draw(st.dictionaries(TEXT, JSON_VAL, max_size=3)),
	        'multi_set': draw(st.sampled_from([None, 'decoy_first', None, 'decoy_last']))}


from vlib.world import WORLD_THR
WORLD_THR_C11 = st.one_of(WORLD_THR, st.just({'kind': 'val', 'v': 1.0}), st.floats(0.5, 1).map(lambda v: {'kind': 'val', 'v': v}))


def strategy(tier):
	return gen_case(tier)
