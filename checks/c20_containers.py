"""C20 — signature collections index like NumPy sequences and compare by content."""

import itertools

from hypothesis import strategies as st

from vlib.harness import Violation

ID = 'C20'
LEVEL = 'exploration'
CONTAINERS = ['array', 'list', 'hdf5']
CONTAINERS_GEN = ['array', 'list', 'hdf5', 'array_i4bounds', 'array_u8bounds', 'hdf5_gzip', 'array_view', 'array_window', 'hdf5_window',
                  'array_pickled', 'list_pickled', 'array_deepcopy', 'list_deepcopy', 'window_pickled']
RULE = ('Exhaustive: for collections of length n=0..4 (quick) / 0..6 (thorough) in each of SignatureArray, SignatureList and '
        'file-backed HDF5Signatures: every int index in -n-2..n+1 (Python and NumPy ints), every slice with start/stop in '
        '{None,-n-2..n+2} and step in {None,0,+-1..+-(n+1)}, every index list of length <= 3 over -n-1..n (as list, tuple, int64/int32 '
        'ndarray, uint8 when non-negative), every boolean mask of length n-1, n, n+1 (list and ndarray). Generated: collections up to '
        'length 40 with drawn expressions of the same kinds plus ill-typed indices; equality pairs across container types; histories '
        'of SignatureList mutations (setitem/delitem with ints and slices, insert, append, extend, pop, reverse, +=, clear) interleaved '
        'with reads, 50 steps. Oracle: a Python list of the arrays. Non-trivial: the expression selects >= 2 signatures or raises; a '
        'history with >= 5 mutations; an equality pair that differs in exactly one place. Enumerated expressions are distinct by '
        'construction, generated ones by hash.')
RULE += ' Further: range objects as indices (enumerated and generated); pickled / deep-copied containers; equality pairs of reference sets with identical release metadata; sub-collections sliced off a SignatureList stay independent under later mutations.'
ASSUMPTIONS = ['a Python bool used as a scalar index is outside the domain (list and NumPy semantics disagree)',
               'h5py/HDF5 are trusted to return the bytes that were written (C12 checks the round trip)']
ENUMERATED = {'quick': ['all int indices, slices, index lists (len<=3) and boolean masks for n=0..4 x 3 container types'],
              'thorough': ['all int indices, slices, index lists (len<=3) and boolean masks for n=0..6 x 3 container types']}
DEADLINE_S = {'quick': 240, 'thorough': 2400}

LENS_BASE = [2, 0, 3, 1, 2, 1, 4, 0, 2, 3]


def _imports():
	import numpy as np
	from gambit.kmers import KmerSpec
	from gambit.sigs.base import SignatureArray, SignatureList, AbstractSignatureArray, dump_signatures, load_signatures
	return np, KmerSpec, SignatureArray, SignatureList, AbstractSignatureArray, dump_signatures, load_signatures


def make_sigs(np, lens, dtype='u2', salt=0):
	return [np.array([(i * 50 + j + salt) for j in range(n)], dtype=dtype) for i, n in enumerate(lens)]


def get_container(ctx, kind, lens, dtype='u2', k=5, prefix='AT'):
	np, KmerSpec, SignatureArray, SignatureList, ASA, dump_signatures, load_signatures = _imports()
	key = ('c20', kind, tuple(lens), dtype, k, prefix)
	if key in ctx.cache:
		return ctx.cache[key]
	spec = KmerSpec(k, prefix)
	sigs = make_sigs(np, lens, dtype)
	if kind == 'array':
		c = SignatureArray(sigs, spec, dtype=np.dtype(dtype))
	elif kind in ('array_i4bounds', 'array_u8bounds'):
		tmp = SignatureArray(sigs, spec, dtype=np.dtype(dtype))
		c = SignatureArray.from_arrays(tmp.values, tmp.bounds.astype('i4' if kind == 'array_i4bounds' else 'u8'), spec)
	elif kind in ('array_window', 'hdf5_window'):
		pad = [np.array([7, 8, 9], dtype=dtype), np.array([5], dtype=dtype)]
		big = SignatureArray(pad + sigs + pad, spec, dtype=np.dtype(dtype))
		c = SignatureArray.from_arrays(big.values, big.bounds[2:2 + len(sigs) + 1], spec)   # bounds[0] != 0
		if kind == 'hdf5_window':
			path = ctx.fresh_path('.gs')
			dump_signatures(path, c)
			c = load_signatures(path)
	elif kind == 'array_view':
		# a SignatureArray that is itself a contiguous slice (view) of a larger one
		pad = [np.array([7, 8, 9], dtype=dtype)]
		big = SignatureArray(pad + sigs + pad, spec, dtype=np.dtype(dtype))
		c = big[1:len(sigs) + 1]
	elif kind == 'hdf5_gzip':
		path = ctx.fresh_path('.gs')
		dump_signatures(path, SignatureList(sigs, spec, dtype=np.dtype(dtype)), compression='gzip')
		c = load_signatures(path)
	elif kind == 'list':
		c = SignatureList(sigs, spec, dtype=np.dtype(dtype))
	elif kind in ('array_pickled', 'list_pickled', 'array_deepcopy', 'list_deepcopy', 'window_pickled'):
		# a collection that went through pickle (what multiprocessing does with arguments and results) or copy.deepcopy
		import pickle, copy
		if kind.startswith('window'):
			pad = [np.array([7, 8, 9], dtype=dtype), np.array([5], dtype=dtype)]
			big = SignatureArray(pad + sigs + pad, spec, dtype=np.dtype(dtype))
			src = SignatureArray.from_arrays(big.values, big.bounds[2:2 + len(sigs) + 1], spec)
		else:
			src = SignatureArray(sigs, spec, dtype=np.dtype(dtype)) if kind.startswith('array') else SignatureList(sigs, spec, dtype=np.dtype(dtype))
		c = pickle.loads(pickle.dumps(src, protocol=(2 if len(sigs) % 2 else pickle.HIGHEST_PROTOCOL))) if kind.endswith('pickled') else copy.deepcopy(src)
	else:
		path = ctx.fresh_path('.gs')
		dump_signatures(path, SignatureArray(sigs, spec, dtype=np.dtype(dtype)))
		c = load_signatures(path)
	if len(ctx.cache) > 300:
		for kk in list(ctx.cache)[:100]:
			v = ctx.cache.pop(kk)
			if hasattr(v[0], 'close'):
				try:
					v[0].close()
				except Exception:
					pass
	ctx.cache[key] = (c, sigs, spec)
	return ctx.cache[key]


# -- model ----------------------------------------------------------------------------------------

def model_eval(model, expr):
	"""Returns ('int', array) | ('seq', list) | ('err', exception classes)."""
	n = len(model)
	t = expr['t']
	if t == 'int':
		v = expr['v']
		if -n <= v < n:
			return 'int', model[v]
		return 'err', (IndexError,)
	if t == 'slice':
		if expr['c'] == 0:
			return 'err', (ValueError,)
		return 'seq', model[slice(expr['a'], expr['b'], expr['c'])]
	if t == 'list':
		if any(not (-n <= v < n) for v in expr['v']):
			return 'err', (IndexError,)
		return 'seq', [model[v] for v in expr['v']]
	if t == 'range':
		# a range object is a sequence of integers like any other
		vals = list(range(expr['a'], expr['b'], expr['c']))
		if any(not (-n <= v < n) for v in vals):
			return 'err', (IndexError,)
		return 'seq', [model[v] for v in vals]
	if t == 'mask':
		if len(expr['v']) != n:
			if len(expr['v']) == 0 and expr['as'] in ('list', 'tuple'):
				return 'seq', []        # an empty Python sequence is an empty integer index, as in NumPy
			return 'err', (IndexError,)
		return 'seq', [m for m, f in zip(model, expr['v']) if f]
	if t == 'bad':
		return 'err', (IndexError, TypeError)
	raise ValueError(t)


def build_index(np, expr):
	t = expr['t']
	if t == 'int':
		a = expr.get('as', 'py')
		if a.startswith('uint') and expr['v'] < 0:
			a = 'int64'
		return expr['v'] if a == 'py' else getattr(np, a)(expr['v'])
	if t == 'slice':
		conv = (lambda x: x) if expr.get('as', 'py') == 'py' else (lambda x: None if x is None else np.int64(x))
		return slice(conv(expr['a']), conv(expr['b']), conv(expr['c']))
	if t == 'list':
		a = expr.get('as', 'list')
		v = expr['v']
		if a == 'list':
			return list(v)
		if a == 'tuple':
			return tuple(v)
		if a in ('pyarray', 'memoryview', 'array_protocol'):
			# integer sequences that NumPy wraps WITHOUT copying: array.array, a memoryview of one, an object exposing __array__
			import array as _array
			arr = _array.array('q', v)
			if a == 'pyarray':
				return arr
			if a == 'memoryview':
				return memoryview(arr)
			return _ArrayProtocol(np.array(v, dtype=np.int64))
		if a.startswith('uint') and any(x < 0 for x in v):
			a = 'int64'
		return np.array(v, dtype=a)
	if t == 'range':
		return range(expr['a'], expr['b'], expr['c'])
	if t == 'mask':
		a = expr.get('as', 'list')
		if a == 'list':
			return list(expr['v'])
		if a == 'tuple':
			return tuple(expr['v'])
		return np.array(expr['v'], dtype=bool)
	if t == 'bad':
		return BAD[expr['v']](np)
	raise ValueError(t)


class _ArrayProtocol:
	"""An index container that hands NumPy its own array through the __array__ protocol."""

	def __init__(self, a):
		self.a = a

	def __array__(self, dtype=None, copy=None):
		return self.a

	def __len__(self):
		return len(self.a)

	def tolist(self):
		return self.a.tolist()


def _index_values(np, idx):
	"""The integers an index container currently holds (None for containers that cannot be changed or are not sequences)."""
	import array as _array
	if isinstance(idx, np.ndarray):
		return idx.tolist(), str(idx.dtype)
	if isinstance(idx, (_array.array, memoryview, _ArrayProtocol)):
		return list(idx.tolist()), type(idx).__name__
	if isinstance(idx, list):
		return list(idx), 'list'
	return None


BAD = {
	'float': lambda np: 1.0,
	'npfloat': lambda np: np.float64(0.0),
	'str': lambda np: 'a',
	'str2': lambda np: '01',
	'none': lambda np: None,
	'list2d': lambda np: [[0, 0]],
	'arr2d': lambda np: np.zeros((1, 1), dtype=int),
	'arr0d': lambda np: np.array(0),
	'floatarr': lambda np: np.array([0.0]),
	'floatlist': lambda np: [0.5],
	'emptyfloatarr': lambda np: np.array([], dtype=float),
	'ragged': lambda np: [0, [0]],
	'nonelist': lambda np: [None],
	'strlist': lambda np: ['0'],
	'ellipsis': lambda np: Ellipsis,
	'object': lambda np: object(),
	'complex': lambda np: 1j,
	'slice_float': lambda np: slice(0.0, 1.0),
	'slice_str': lambda np: slice('a', None),
	'bytes': lambda np: b'ab',
	'dict': lambda np: {0: 0},
	'emptystr': lambda np: '',
	'emptybytes': lambda np: b'',
	'emptydict': lambda np: {},
	'emptyset': lambda np: set(),
}


def check_expr(np, ASA, cont, model, spec, dtype, expr, case, cname):
	kind, exp = model_eval(model, expr)
	idx = build_index(np, expr)
	before = _index_values(np, idx)
	try:
		res = cont[idx]
		err = None
	except Exception as e:
		res, err = None, e
	if before is not None and _index_values(np, idx) != before:
		raise Violation('index_array_modified', f'{cname}[{_show(expr)}]: the caller\'s index container ({before[1]}) changed from {before[0]} to {_index_values(np, idx)[0]}', case)
	if kind == 'err':
		if err is None:
			raise Violation('no_error:' + expr['t'] + (':' + str(expr['v']) if expr['t'] == 'bad' else ''),
			                f'{cname}[{_show(expr)}] (len {len(model)}) returned {_summ(res)} instead of raising {"/".join(c.__name__ for c in exp)}', case)
		if not isinstance(err, exp):
			raise Violation('wrong_error', f'{cname}[{_show(expr)}] raised {type(err).__name__}: {err}; expected {"/".join(c.__name__ for c in exp)}', case)
		return
	if err is not None:
		raise Violation('unexpected_error', f'{cname}[{_show(expr)}] (len {len(model)}) raised {type(err).__name__}: {err}', case)
	if kind == 'int':
		if not isinstance(res, np.ndarray) or res.dtype != dtype or not np.array_equal(res, exp):
			raise Violation('wrong_item', f'{cname}[{_show(expr)}] = {_summ(res)}, expected {exp.tolist()}', case)
		# the array stays what it is while the caller goes on using the collection (other items, iteration, slices)
		n_ = len(model)
		others = [cont[j] for j in range(n_)]
		_ = list(cont)
		_ = cont[0:n_]
		if not np.array_equal(res, exp):
			raise Violation('item_changed_later', f'{cname}[{_show(expr)}] was {exp.tolist()} when returned and is {_summ(res)} after other items of the collection were read', case)
		for j, (o, m) in enumerate(zip(others, model)):
			if not np.array_equal(o, m):
				raise Violation('item_changed_later', f'{cname}: item {j} fetched in a loop over all items is {_summ(o)}, expected {m.tolist()} (results share storage)', case)
		return
	if not isinstance(res, ASA):
		raise Violation('result_type', f'{cname}[{_show(expr)}] returned {type(res).__name__}, not a signature collection', case)
	if len(res) != len(exp):
		raise Violation('wrong_selection', f'{cname}[{_show(expr)}] has length {len(res)}, expected {len(exp)}', case)
	got = [res[i] for i in range(len(res))]
	for g, e in zip(got, exp):
		if not isinstance(g, np.ndarray) or not np.array_equal(g, e):
			raise Violation('wrong_selection', f'{cname}[{_show(expr)}] = {[x.tolist() for x in got]}, expected {[x.tolist() for x in exp]}', case)
		if g.dtype != dtype:
			raise Violation('dtype_lost', f'{cname}[{_show(expr)}] element dtype {g.dtype}, expected {dtype}', case)
	if res.kmerspec != spec:
		raise Violation('kmerspec_lost', f'{cname}[{_show(expr)}].kmerspec = {res.kmerspec!r}, expected {spec!r}', case)
	if res.dtype != dtype:
		raise Violation('dtype_lost', f'{cname}[{_show(expr)}].dtype = {res.dtype}, expected {dtype}', case)
	it = list(res)
	if len(it) != len(exp) or not all(np.array_equal(a, b) for a, b in zip(it, exp)):
		raise Violation('iteration', f'iterating {cname}[{_show(expr)}] disagrees with indexing it', case)


def _show(expr):
	t = expr['t']
	if t == 'int':
		return f"{expr['v']}" + ('' if expr.get('as', 'py') == 'py' else f" as {expr['as']}")
	if t == 'slice':
		f = lambda x: '' if x is None else str(x)
		return f"{f(expr['a'])}:{f(expr['b'])}:{f(expr['c'])}"
	if t in ('list', 'mask'):
		return f"{expr['v']} as {expr.get('as', 'list')}"
	if t == 'range':
		return f"range({expr['a']}, {expr['b']}, {expr['c']})"
	return f"<{expr['v']}>"


def _summ(res):
	try:
		import numpy as np
		if isinstance(res, np.ndarray):
			return f'array {res.tolist()}'
		return f'{type(res).__name__} {[x.tolist() for x in res]}'
	except Exception:
		return repr(res)


# -- enumeration ----------------------------------------------------------------------------------

def enum_cases(tier):
	nmax = 4 if tier == 'quick' else 6
	for cname in CONTAINERS:
		for n in range(nmax + 1):
			for part in ('ints', 'slices', 'masks'):
				yield {'kind': 'enum', 'container': cname, 'n': n, 'part': part}
			for first in [None] + list(range(-n - 1, n + 1)):
				yield {'kind': 'enum', 'container': cname, 'n': n, 'part': 'lists', 'first': first}


def enum_exprs(case):
	n = case['n']
	part = case['part']
	if part == 'ints':
		for v in range(-n - 2, n + 2):
			yield {'t': 'int', 'v': v, 'as': 'py'}
			yield {'t': 'int', 'v': v, 'as': 'int64'}
			yield {'t': 'int', 'v': v, 'as': 'int32'}
			if v >= 0:
				yield {'t': 'int', 'v': v, 'as': 'uint8'}
				yield {'t': 'int', 'v': v, 'as': 'uint64'}
	elif part == 'slices':
		bounds = [None] + list(range(-n - 2, n + 3))
		steps = [None, 0] + [s for k in range(1, n + 2) for s in (k, -k)]
		for a in bounds:
			for b in bounds:
				for c in steps:
					yield {'t': 'slice', 'a': a, 'b': b, 'c': c, 'as': 'py'}
		for a, b, c in ((None, None, -1), (-1, None, -1), (n, 0, -1), (0, n, 1), (1, n + 1, 2)):
			yield {'t': 'slice', 'a': a, 'b': b, 'c': c, 'as': 'np'}
		# every range object over the same bounds and steps (a range is an index sequence, not a slice: no clipping)
		for a in range(-n - 1, n + 2):
			for b in range(-n - 2, n + 3):
				for c in [s_ for k in range(1, n + 2) for s_ in (k, -k)]:
					yield {'t': 'range', 'a': a, 'b': b, 'c': c}
	elif part == 'masks':
		for m in (n - 1, n, n + 1):
			if m < 0:
				continue
			for bits in itertools.product([False, True], repeat=m):
				yield {'t': 'mask', 'v': list(bits), 'as': 'list'}
				yield {'t': 'mask', 'v': list(bits), 'as': 'bool'}
	elif part == 'lists':
		vals = list(range(-n - 1, n + 1))
		first = case['first']
		if first is None:
			seqs = [[]]
		else:
			seqs = [[first]] + [[first, b] for b in vals] + [[first, b, c] for b in vals for c in vals]
		for v in seqs:
			yield {'t': 'list', 'v': v, 'as': 'list'}
			yield {'t': 'list', 'v': v, 'as': 'int64'}
			if len(v) <= 2:
				yield {'t': 'list', 'v': v, 'as': 'tuple'}
				yield {'t': 'list', 'v': v, 'as': 'int32'}
				if v:
					yield {'t': 'list', 'v': v, 'as': 'pyarray'}
					yield {'t': 'list', 'v': v, 'as': 'memoryview'}
					yield {'t': 'list', 'v': v, 'as': 'array_protocol'}
				if all(x >= 0 for x in v):
					yield {'t': 'list', 'v': v, 'as': 'uint8'}


def fit_expr(expr, n):
	expr = dict(expr)
	if expr['t'] == 'mask' and expr.get('fit'):
		expr['v'] = (expr['v'] * (n + 1))[:n] if expr['v'] else [False] * n
	return expr


def nontrivial_expr(model, expr):
	kind, exp = model_eval(model, expr)
	return kind == 'err' or (kind == 'seq' and len(exp) >= 2)


# -- run ------------------------------------------------------------------------------------------

def run_case(case, ctx):
	np, KmerSpec, SignatureArray, SignatureList, ASA, dump_signatures, load_signatures = _imports()
	kind = case['kind']
	if kind == 'enum':
		n = case['n']
		lens = LENS_BASE[:n]
		cont, model, spec = get_container(ctx, case['container'], lens)
		dtype = np.dtype('u2')
		if len(cont) != n:
			raise Violation('len', f'{case["container"]} of {n} signatures has len {len(cont)}', case)
		evals = nt = 0
		for expr in enum_exprs(case):
			one = {'kind': 'expr', 'container': case['container'], 'lens': lens, 'dtype': 'u2', 'expr': expr}
			check_expr(np, ASA, cont, model, spec, dtype, expr, one, case['container'])
			evals += 1
			if nontrivial_expr(model, expr):
				nt += 1
		return {'evals': evals, 'nontrivial_count': nt, 'classes': [f'enum:{case["part"]}', f'container={case["container"]}']}
	if kind == 'expr':
		lens = case['lens']
		dtype = np.dtype(case.get('dtype', 'u2'))
		cont, model, spec = get_container(ctx, case['container'], lens, case.get('dtype', 'u2'))
		n = len(lens)
		expr = fit_expr(case['expr'], n)
		check_expr(np, ASA, cont, model, spec, dtype, expr, case, case['container'])
		if len(cont) != n:
			raise Violation('len', f'len = {len(cont)}, expected {n}', case)
		classes = ['expr:' + expr['t'], f'container={case["container"]}', 'len=0' if n == 0 else 'len>32767' if n > 32767 else 'len>127' if n > 127 else 'len>=10' if n >= 10 else 'len:1-9']
		if expr['t'] == 'bad':
			classes.append('bad:' + expr['v'])
		if expr['t'] == 'slice' and (expr['c'] or 1) < 0:
			classes.append('negative_step')
		return {'nontrivial': nontrivial_expr(model, expr), 'classes': classes}
	if kind == 'eq':
		return run_eq(case, ctx)
	if kind == 'history':
		return run_history(case, ctx)
	raise ValueError(kind)


def run_eq(case, ctx):
	np, KmerSpec, SignatureArray, SignatureList, ASA, dump_signatures, load_signatures = _imports()
	lens = case['lens']
	spec1 = KmerSpec(*case['spec1'])
	spec2 = KmerSpec(*case['spec2'])
	sigs1 = make_sigs(np, lens, case['dt1'])
	sigs2 = [s.astype(case['dt2']) for s in make_sigs(np, lens, case['dt1'])]
	change = case['change']
	spec_differs = (case['spec1'][0], case['spec1'][1].upper()) != (case['spec2'][0], case['spec2'][1].upper())
	differs = spec_differs
	if change['t'] == 'elem' and lens:
		i = change['i'] % len(lens)
		s = sigs2[i]
		if len(s):
			s = s.copy()
			s[change['j'] % len(s)] += 7 if change.get('bump') else 0
			if change.get('bump'):
				differs = True
		elif change.get('bump'):
			s = np.array([3], dtype=s.dtype)
			differs = True
		sigs2[i] = s
	elif change['t'] == 'drop' and lens:
		del sigs2[change['i'] % len(lens)]
		differs = True
	elif change['t'] == 'append':
		sigs2.append(np.array([1, 2], dtype=case['dt2']))
		differs = True
	elif change['t'] == 'swap' and len(lens) >= 2:
		i = change['i'] % (len(lens) - 1)
		if not np.array_equal(sigs2[i], sigs2[i + 1]):
			differs = True
		sigs2[i], sigs2[i + 1] = sigs2[i + 1], sigs2[i]

	def mk(kind, sigs, spec, dt):
		if kind == 'array':
			return SignatureArray(sigs, spec, dtype=np.dtype(dt))
		if kind == 'list':
			return SignatureList(sigs, spec, dtype=np.dtype(dt))
		if kind in ('annotated', 'hdf5_meta') and len(sigs):
			# reference sets carrying the SAME release metadata (id, version) and the same IDs on both sides: equality is still about content
			from gambit.sigs.base import AnnotatedSignatures, SignaturesMeta
			meta = SignaturesMeta(id='verif/release', version='1.0', name='same release', id_attr='key')
			ann = AnnotatedSignatures(SignatureArray(sigs, spec, dtype=np.dtype(dt)), [f'id{i}' for i in range(len(sigs))], meta)
			if kind == 'annotated':
				return ann
			path = ctx.fresh_path('.gs')
			dump_signatures(path, ann)
			return load_signatures(path)
		path = ctx.fresh_path('.gs')
		dump_signatures(path, SignatureArray(sigs, spec, dtype=np.dtype(dt)))
		return load_signatures(path)
	a = mk(case['c1'], sigs1, spec1, case['dt1'])
	b = mk(case['c2'], sigs2, spec2, case['dt2'])
	try:
		for x, y, tag in ((a, b, 'a==b'), (b, a, 'b==a')):
			r = (x == y)
			if r is NotImplemented or bool(r) != (not differs):
				raise Violation('equality', f'{tag} is {r!r} but collections {"differ" if differs else "are equal"} '
				                f'({case["c1"]}/{case["c2"]}, change {change}, specs {spec1!r}/{spec2!r})', case)
			r2 = (x != y)
			if bool(r2) != differs:
				raise Violation('inequality', f'{tag.replace("==", "!=")} is {r2!r} but collections {"differ" if differs else "are equal"}', case)
		if not (a == a) or not (b == b):
			raise Violation('equality', 'collection not equal to itself', case)
	finally:
		for c in (a, b):
			if hasattr(c, 'close'):
				c.close()
	return {'nontrivial': (differs and change['t'] in ('elem', 'swap')) or spec_differs,
	        'classes': ['eq', f'eq:{case["c1"]}-{case["c2"]}', 'eq:change=' + change['t'], 'eq:differs' if differs else 'eq:equal',
	                    'eq:spec_differs' if spec_differs else 'eq:same_spec', 'eq:dtype_differs' if case['dt1'] != case['dt2'] else 'eq:same_dtype']}


def run_history(case, ctx):
	np, KmerSpec, SignatureArray, SignatureList, ASA, dump_signatures, load_signatures = _imports()
	spec = KmerSpec(5, 'AT')
	dtype = np.dtype('u2')
	counter = [0]

	def fresh(n=None):
		counter[0] += 1
		ln = counter[0] % 4 if n is None else n
		return np.array([counter[0] * 10 + j for j in range(ln)], dtype=dtype)
	model = [fresh() for _ in case['init_lens']]
	sl = SignatureList(list(model), spec)
	nmut = 0
	classes = set()
	forks = []

	def compare(step):
		if len(sl) != len(model):
			raise Violation('history_len', f'after step {step}: len {len(sl)} != model {len(model)}', case)
		for i, m in enumerate(model):
			if sl[i] is not m:
				raise Violation('history_content', f'after step {step}: element {i} is {sl[i]!r}, model has {m!r}', case)
		if not all(x is y for x, y in zip(list(sl), model)):
			raise Violation('history_iter', f'after step {step}: iteration disagrees with model', case)
		# collections obtained earlier by slicing are separate lists: a mutation of one never shows in another
		for fi, (o, m) in enumerate(forks):
			if len(o) != len(m) or not all(x is y for x, y in zip(list(o), m)):
				raise Violation('history_aliasing', f'after step {step}: sub-collection {fi} obtained by slicing earlier now has {len(o)} elements / other '
				                f'content than its own model ({len(m)} elements): it shares state with the collection it was sliced from', case)

	for step, op in enumerate(case['ops']):
		t = op['t']
		n = len(model)
		exp_err = None
		try:
			if t == 'set':
				v = fresh()
				try:
					model[op['i']] = v
				except IndexError as e:
					exp_err = IndexError
				try:
					sl[op['i']] = v
					got_err = None
				except Exception as e:
					got_err = e
			elif t == 'setslice':
				vals = [fresh() for _ in range(op['n'])]
				s = slice(op['a'], op['b'], op['c'])
				try:
					model[s] = vals
				except ValueError:
					exp_err = ValueError
				try:
					sl[s] = vals
					got_err = None
				except Exception as e:
					got_err = e
			elif t == 'del':
				try:
					del model[op['i']]
				except IndexError:
					exp_err = IndexError
				try:
					del sl[op['i']]
					got_err = None
				except Exception as e:
					got_err = e
			elif t == 'delslice':
				s = slice(op['a'], op['b'], op['c'])
				del model[s]
				try:
					del sl[s]
					got_err = None
				except Exception as e:
					got_err = e
			elif t == 'insert':
				v = fresh()
				model.insert(op['i'], v)
				try:
					sl.insert(op['i'], v)
					got_err = None
				except Exception as e:
					got_err = e
			elif t == 'append':
				v = fresh()
				model.append(v)
				sl.append(v); got_err = None
			elif t == 'extend':
				vals = [fresh() for _ in range(op['n'])]
				model.extend(vals)
				sl.extend(vals); got_err = None
			elif t == 'iadd':
				vals = [fresh() for _ in range(op['n'])]
				model += vals
				before = sl
				sl += vals
				got_err = None
				if sl is not before:
					raise Violation('history_iadd', '+= rebinds to a new object', case)
			elif t == 'pop':
				try:
					exp_v = model.pop(op['i']) if op['i'] is not None else model.pop()
				except IndexError:
					exp_err = IndexError
				try:
					got_v = sl.pop(op['i']) if op['i'] is not None else sl.pop()
					got_err = None
					if exp_err is None and got_v is not exp_v:
						raise Violation('history_pop', f'step {step}: pop returned a different element', case)
				except Violation:
					raise
				except Exception as e:
					got_err = e
			elif t == 'reverse':
				model.reverse()
				sl.reverse(); got_err = None
			elif t == 'clear':
				model.clear()
				sl.clear(); got_err = None
			elif t == 'fork':
				sl_ = slice(op['a'], op['b'], op['c'])
				try:
					o = sl[sl_]
				except Exception as e:
					raise Violation('history_unexpected_error', f'step {step}: sl[{sl_}] raised {type(e).__name__}: {e}', case)
				m = list(model[sl_])
				if op['then'] == 'append' and hasattr(o, 'append'):
					v = fresh()
					o.append(v); m.append(v)
				elif op['then'] == 'clear' and hasattr(o, 'clear'):
					o.clear(); m.clear()
				if len(forks) < 4:
					forks.append((o, m))
				got_err = None
				classes.add('history_fork' + ('_whole' if len(m) - (op['then'] == 'append') == len(model) and op['then'] != 'clear' else ''))
			elif t == 'read':
				expr = fit_expr(op['expr'], len(model))
				check_expr(np, ASA, sl, model, spec, dtype, expr, case, 'SignatureList(history)')
				got_err = None
				classes.add('history_read')
			else:
				raise ValueError(t)
		except Violation:
			raise
		if exp_err is not None:
			if got_err is None or not isinstance(got_err, exp_err):
				raise Violation('history_error', f'step {step} {op}: model raises {exp_err.__name__}, SignatureList '
				                f'{"returned normally" if got_err is None else "raised " + type(got_err).__name__}', case)
			classes.add('history_error_step')
		elif got_err is not None:
			raise Violation('history_unexpected_error', f'step {step} {op}: raised {type(got_err).__name__}: {got_err}', case)
		if t not in ('read', 'fork'):
			nmut += 1
			classes.add('mut:' + t)
		compare(step)
		if sl.kmerspec != spec or sl.dtype != dtype:
			raise Violation('history_spec', f'after step {step}: kmerspec/dtype changed', case)
	classes.add('history')
	return {'nontrivial': nmut >= 5, 'classes': sorted(classes)}


# -- generation -----------------------------------------------------------------------------------

def budget(tier):
	return {'quick': 30000, 'thorough': 250000}[tier]


HUGE = st.sampled_from([2 ** 63 - 1, 2 ** 63, 2 ** 64 - 1, 2 ** 64 - 2, 2 ** 64 - 3, 2 ** 64 - 5, 2 ** 32, 2 ** 31])


def expr_strategy(nmax_hint=12):
	r = st.integers(-nmax_hint - 2, nmax_hint + 2)
	rh = st.one_of(r, r, r, HUGE)
	opt = st.one_of(st.none(), r)
	return st.one_of(
		st.builds(lambda v, a: {'t': 'int', 'v': v, 'as': a}, r, st.sampled_from(['py', 'int64', 'int32', 'uint64', 'uint16'])),
		st.builds(lambda v, a: {'t': 'int', 'v': v, 'as': a}, HUGE, st.sampled_from(['py', 'uint64'])),
		st.builds(lambda v, a: {'t': 'list', 'v': v, 'as': a}, st.lists(rh, min_size=1, max_size=5).filter(lambda l: all(x >= 0 for x in l)), st.sampled_from(['uint64', 'list'])),
		st.builds(lambda a, b, c, k: {'t': 'slice', 'a': a, 'b': b, 'c': c, 'as': k}, opt, opt,
		          st.one_of(st.none(), st.integers(-5, 5), r), st.sampled_from(['py', 'py', 'np'])),
		st.builds(lambda v, a: {'t': 'list', 'v': v, 'as': a}, st.lists(r, max_size=8), st.sampled_from(['list', 'tuple', 'int64', 'int32', 'int16', 'uint64', 'uint8', 'pyarray', 'memoryview', 'array_protocol'])),
		st.builds(lambda v, a, fit: {'t': 'mask', 'v': v, 'as': a, 'fit': fit}, st.lists(st.booleans(), max_size=12),
		          st.sampled_from(['list', 'bool']), st.sampled_from([True, True, False])),
		st.builds(lambda v: {'t': 'bad', 'v': v}, st.sampled_from(sorted(BAD))),
		st.builds(lambda a, b, c: {'t': 'range', 'a': a, 'b': b, 'c': c}, r, st.one_of(r, st.just(-1), st.just(0)), st.sampled_from([1, -1, 2, -2, 3, -3])),
	)


@st.composite
def gen_case(draw, tier):
	which = draw(st.sampled_from(['expr', 'expr', 'eq', 'history', 'expr']))
	lens_st = st.lists(st.integers(0, 4), min_size=0, max_size=draw(st.sampled_from([3, 8, 40])))
	if which == 'expr' and draw(st.integers(0, 11)) == 11:
		# collections longer than the range of a narrow index type: int8 indices on 129..300 signatures, (rarer) int16 on 33000
		if draw(st.integers(0, 7)) == 7:
			N, as_, lo, hi = 33000, 'int16', -32768, 32767
		else:
			N, as_, lo, hi = draw(st.sampled_from([129, 200, 256, 300])), 'int8', -128, 127
		lens = [1 if i % 3 == 0 else 0 for i in range(N)]
		v = draw(st.lists(st.one_of(st.integers(lo, hi), st.sampled_from([-1, lo, hi, -2, 0])), min_size=1, max_size=6))
		return {'kind': 'expr', 'container': draw(st.sampled_from(['array', 'list', 'hdf5'] if N <= 300 else ['array', 'list'])), 'lens': lens, 'dtype': 'u4',
		        'expr': {'t': 'list', 'v': v, 'as': as_}}
	if which == 'expr':
		lens = draw(lens_st)
		return {'kind': 'expr', 'container': draw(st.sampled_from(CONTAINERS_GEN)), 'lens': lens,
		        'dtype': draw(st.sampled_from(['u2', 'u2', 'u4', 'u8', 'i8'])), 'expr': draw(expr_strategy(len(lens)))}
	if which == 'eq':
		lens = draw(lens_st)
		spec1 = draw(st.sampled_from([[5, 'AT'], [5, 'AC'], [6, 'AT'], [5, 'ATG'], [5, 'GT'], [5, 'CAT']]))
		spec2 = draw(st.sampled_from([spec1, spec1, spec1, [5, 'AT'], [5, 'AC'], [6, 'AT'], [5, 'ATG'], [5, 'at'], [5, 'GT'], [5, 'CAT'], [5, 'TA']]))
		change = draw(st.one_of(
			st.builds(lambda i, j, b: {'t': 'elem', 'i': i, 'j': j, 'bump': b}, st.integers(0, 50), st.integers(0, 50), st.booleans()),
			st.builds(lambda i: {'t': 'drop', 'i': i}, st.integers(0, 50)),
			st.just({'t': 'append'}),
			st.builds(lambda i: {'t': 'swap', 'i': i}, st.integers(0, 50)),
			st.just({'t': 'none'}),
		))
		return {'kind': 'eq', 'lens': lens, 'spec1': spec1, 'spec2': spec2, 'change': change,
		        'c1': draw(st.sampled_from(CONTAINERS + ['annotated', 'hdf5_meta', 'hdf5_meta'])), 'c2': draw(st.sampled_from(CONTAINERS + ['annotated', 'hdf5_meta', 'hdf5_meta'])),
		        'dt1': draw(st.sampled_from(['u2', 'u4'])), 'dt2': draw(st.sampled_from(['u2', 'u4', 'u8', 'i8']))}
	# history
	r = st.integers(-8, 8)
	opt = st.one_of(st.none(), r)
	step = st.one_of(st.none(), st.sampled_from([1, -1, 2, -2, 3]))
	op = st.one_of(
		st.builds(lambda i: {'t': 'set', 'i': i}, r),
		st.builds(lambda a, b, c, n: {'t': 'setslice', 'a': a, 'b': b, 'c': c, 'n': n}, opt, opt, step, st.integers(0, 4)),
		st.builds(lambda i: {'t': 'del', 'i': i}, r),
		st.builds(lambda a, b, c: {'t': 'delslice', 'a': a, 'b': b, 'c': c}, opt, opt, step),
		st.builds(lambda i: {'t': 'insert', 'i': i}, r),
		st.just({'t': 'append'}),
		st.builds(lambda n: {'t': 'extend', 'n': n}, st.integers(0, 3)),
		st.builds(lambda n: {'t': 'iadd', 'n': n}, st.integers(0, 3)),
		st.builds(lambda i: {'t': 'pop', 'i': i}, st.one_of(st.none(), r)),
		st.just({'t': 'reverse'}),
		st.just({'t': 'clear'}),
		st.builds(lambda e: {'t': 'read', 'expr': e}, expr_strategy(8).filter(lambda e: e['t'] != 'bad')),
		st.builds(lambda e: {'t': 'read', 'expr': e}, expr_strategy(8).filter(lambda e: e['t'] != 'bad')),
		st.just({'t': 'append'}),
		st.builds(lambda i: {'t': 'insert', 'i': i}, r),
		st.builds(lambda a, b, c, th: {'t': 'fork', 'a': a, 'b': b, 'c': c, 'then': th}, st.one_of(st.none(), st.none(), st.just(0), r),
		          st.one_of(st.none(), st.none(), r), st.sampled_from([None, None, 1, 1, -1, 2]), st.sampled_from(['append', 'none', 'clear'])),
	)
	return {'kind': 'history', 'init_lens': draw(st.lists(st.integers(0, 3), max_size=6)),
	        'ops': draw(st.lists(op, min_size=1, max_size=50))}


def strategy(tier):
	return gen_case(tier)
