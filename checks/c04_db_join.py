"""C04 — each reference genome is compared through its own signature, matched by ID."""

import os
import random
import shutil

from hypothesis import strategies as st

from vlib.harness import Violation
from vlib.refmodel import jaccard as J

ID = 'C04'
LEVEL = 'exploration'
RULE = ('Generated: genome sets of 1..10 genomes with unique key / genbank_acc / refseq_acc (nasty Unicode strings) and ncbi_id (ints up to '
        '2^62), 0..3 Genome rows outside the set; a signature file whose IDs are the set\'s IDs for the drawn id_attr plus 0..6 unrelated '
        'IDs (some equal to another attribute\'s ID of a genome or to an outside genome\'s ID) in a drawn permutation; all four identifier '
        'attributes; file names .gdb/.db and .gs/.h5 plus unrelated extra files; the genome file in rollback-journal mode, WAL mode, or WAL mode with a stale file (identifiers rotated among the genomes) and the true identifiers in a committed transaction of the write-ahead log beside it. Negative variants (one per case): needed signatures '
        'dropped, id_attr None, id_attr not an identifier attribute, NULL identifier in the set, integer IDs stored as strings, none / two '
        'genome files, none / two signature files. Oracle R-DB: after ReferenceDatabase.load_from_dir every genome of the set is present '
        'once, signatures.ids[sig_indices[i]] equals genome_i.<id_attr> and signatures[sig_indices[i]] is the array written for that '
        'ID; query(report_closest=n) lists every genome with the bit-exact R-JAC distance to its own signature; negative variants must '
        'raise. Non-trivial: permuted or padded signature file (positive) or any negative variant; distinct by case hash.')
ASSUMPTIONS = ['signature IDs within one file are unique (the property quantifies over files with unique IDs)']
DEADLINE_S = {'quick': 240, 'thorough': 2400}
ATTRS = ['key', 'genbank_acc', 'refseq_acc', 'ncbi_id']
NEG = ['drop_sigs', 'id_attr_none', 'id_attr_absent', 'id_attr_bad', 'null_id', 'int_ids_as_str', 'no_gdb', 'two_gdb', 'no_gs', 'two_gs']


def budget(tier):
	return {'quick': 3000, 'thorough': 30000}[tier]


def run_case(case, ctx):
	import numpy as np
	from sqlalchemy import create_engine
	from sqlalchemy.orm import Session
	from gambit.db.models import Base, ReferenceGenomeSet, Taxon, Genome, AnnotatedGenome
	from gambit.db.refdb import ReferenceDatabase
	from gambit.kmers import KmerSpec
	from gambit.sigs.base import SignatureArray, SignatureList, AnnotatedSignatures, SignaturesMeta, dump_signatures
	from gambit.query import query

	n = case['n']
	attr = case['id_attr']
	neg = case['neg']
	rnd = random.Random(case['seed'])
	spec = KmerSpec(6, 'AT')
	# identifiers: strings from the case (unique per attribute and across attributes), ints
	strs = case['strings']
	need = 3 * (n + 3) + 8
	pool = []
	seen = set()
	for s in strs + [f'id{i}' for i in range(need)]:
		if s not in seen:
			seen.add(s)
			pool.append(s)
	it = iter(pool)
	ints = rnd.sample(range(1, 2 ** 62), n + 12) + []
	if case.get('small_ints'):
		ints = rnd.sample(range(0, 40), n + 12)
	genomes = []
	for j in range(n + case['n_outside']):
		genomes.append({'key': next(it), 'genbank_acc': next(it), 'refseq_acc': next(it), 'ncbi_id': ints[j], 'inset': j < n})
	# signatures: distinct arrays
	def rand_sig(seed):
		r = random.Random(seed)
		return np.array(sorted(r.sample(range(4096), r.randrange(3, 40))), dtype='u2')
	sig_of = {j: rand_sig(case['seed'] * 100 + j) for j in range(n)}
	entries = [(genomes[j][attr], sig_of[j], j) for j in range(n)]
	# unrelated IDs
	extra_pool = list(it)
	for e in range(case['n_extra']):
		kind = rnd.choice(['fresh', 'other_attr', 'outside'])
		if attr == 'ncbi_id':
			if kind == 'outside' and case['n_outside']:
				eid = genomes[n + rnd.randrange(case['n_outside'])]['ncbi_id']
			else:
				eid = ints[n + 4 + e]
		else:
			if kind == 'other_attr':
				other = rnd.choice([a for a in ATTRS[:3] if a != attr])
				eid = genomes[rnd.randrange(n)][other]
			elif kind == 'outside' and case['n_outside']:
				eid = genomes[n + rnd.randrange(case['n_outside'])][attr]
			else:
				eid = extra_pool.pop() if extra_pool else f'extra{e}'
		if any(eid == x[0] for x in entries):
			continue
		entries.append((eid, rand_sig(case['seed'] * 100 + 50 + e), None))
	rnd.shuffle(entries) if case['permute'] else None
	dropped = 0
	if neg == 'drop_sigs':
		keep = []
		ndrop = 1 + case['seed'] % max(1, min(n, 3))
		for ent in entries:
			if ent[2] is not None and dropped < ndrop:
				dropped += 1
				continue
			keep.append(ent)
		entries = keep
	null_j = None
	if neg == 'null_id':
		if attr == 'key':
			neg = 'none_applicable'
		else:
			null_j = case['seed'] % n

	d_top = d = ctx.fresh_dir('c04db')
	try:
		if case.get('dir_style'):
			# the database directory carries an awkward but legal name and has neighbours (complete decoy databases) with similar names
			from vlib import clihelp as _H
			d = _H.styled_db_dir(d_top, case['dir_style'])
		gdb_name = 'genomes' + case['gdb_ext']
		gs_name = 'sigs' + case['gs_ext']
		gdb_path = os.path.join(d, gdb_name)
		from sqlalchemy.engine import URL
		engine = create_engine(URL.create('sqlite', database=gdb_path))     # not an f-string URL: the path may contain ? # %
		Base.metadata.create_all(engine)
		with Session(engine) as s:
			gset = ReferenceGenomeSet(key='c04', version='1', name='c04')
			taxon = Taxon(key='t0', name='T0', distance_threshold=0.5, report=True, genome_set=gset)
			s.add_all([gset, taxon])
			order = list(range(len(genomes)))
			if case.get('shuffle_rows', True):
				random.Random(case['seed'] + 17).shuffle(order)    # row (primary key) order is unrelated to membership and to signature order
			for j in order:
				g = genomes[j]
				outsider_null = (not g['inset']) and (case['seed'] + j) % 2 == 0      # non-members may lack identifiers: irrelevant to the set
				obj = Genome(key=g['key'], description=f'desc {j}', ncbi_db=None if outsider_null else 'assembly',
				             ncbi_id=None if ((null_j == j and attr == 'ncbi_id') or outsider_null) else g['ncbi_id'],
				             genbank_acc=None if ((null_j == j and attr == 'genbank_acc') or outsider_null) else g['genbank_acc'],
				             refseq_acc=None if ((null_j == j and attr == 'refseq_acc') or outsider_null) else g['refseq_acc'])
				if g['inset']:
					s.add(AnnotatedGenome(genome=obj, genome_set=gset, taxon=taxon, organism='org'))
				else:
					s.add(obj)
				s.flush()
			s.commit()
		engine.dispose()
		state = case.get('gdb_state', 'plain')
		if state == 'wal':
			import sqlite3
			con = sqlite3.connect(gdb_path); con.execute('PRAGMA journal_mode=WAL'); con.commit(); con.close()
		elif state == 'wal_hot':
			# the genome file holds a stale state (identifiers rotated among the genomes); the committed transaction that sets the
			# true identifiers is still in the write-ahead log beside it, which every SQLite reader takes into account
			from vlib import sqlitestate
			if not sqlitestate.stale_main_true_wal(gdb_path, attr):
				state = 'plain'
		ids = [e[0] for e in entries]
		if attr == 'ncbi_id':
			ids_arg = (np.array([str(i) for i in ids], dtype=object)) if neg == 'int_ids_as_str' else np.array(ids, dtype='i8')
		else:
			ids_arg = np.array(ids, dtype=object) if not ids else ids
			if neg == 'int_ids_as_str':
				neg = 'none_applicable'
		meta_attr = attr
		if neg in ('id_attr_none', 'id_attr_absent'):
			meta_attr = None
		elif neg == 'id_attr_bad':
			meta_attr = ['description', 'id', 'ncbi_db', 'Key', 'taxon'][case['seed'] % 5]
		arrays = [e[1] for e in entries]
		cont = SignatureArray(arrays, spec, dtype=np.dtype('u2')) if case['seed'] % 2 else SignatureList(arrays, spec, dtype=np.dtype('u2'))
		dump_signatures(os.path.join(d, gs_name), AnnotatedSignatures(cont, ids_arg, SignaturesMeta(id_attr=meta_attr)))
		if neg == 'id_attr_absent':
			# a signature file in which the id_attr attribute does not exist at all (written by another tool, or removed)
			import h5py
			with h5py.File(os.path.join(d, gs_name), 'r+') as hf:
				if 'id_attr' in hf.attrs:
					del hf.attrs['id_attr']
		# directory variants
		for extra in case['extra_files']:
			open(os.path.join(d, extra), 'w').write('unrelated\n')
		if neg == 'no_gdb':
			os.rename(gdb_path, os.path.join(d, 'genomes.sqlite'))
		elif neg == 'two_gdb':
			shutil.copy(gdb_path, os.path.join(d, 'other' + ('.db' if case['seed'] % 2 else '.gdb')))
		elif neg == 'no_gs':
			os.rename(os.path.join(d, gs_name), os.path.join(d, 'sigs.hdf5'))
		elif neg == 'two_gs':
			shutil.copy(os.path.join(d, gs_name), os.path.join(d, 'other' + ('.h5' if case['seed'] % 2 else '.gs')))

		negative = neg not in (None, 'none_applicable')
		try:
			db = ReferenceDatabase.load_from_dir(d)
			err = None
		except Exception as e:
			db, err = None, e
		classes = ['attr=' + attr, 'neg=' + str(neg), 'gdb_state=' + state] + (['dir_name=' + case['dir_style']] if case.get('dir_style') else [])
		if negative:
			if err is None:
				try:
					db.signatures.close()
					db.session.close()
				except Exception:
					pass
				raise Violation('bad_database_loaded:' + neg, f'variant {neg}: load_from_dir returned a database instead of raising', case)
			return {'nontrivial': True, 'classes': classes, 'expects_rejection': True}
		if err is not None:
			raise Violation('load_failed', f'load_from_dir raised {type(err).__name__}: {err}', case)
		try:
			if len(db.genomes) != n or len(db.sig_indices) != n:
				raise Violation('genome_count', f'{len(db.genomes)} genomes / {len(db.sig_indices)} indices loaded, set has {n}', case)
			keys = [g.key for g in db.genomes]
			if sorted(keys) != sorted(g['key'] for g in genomes[:n]):
				raise Violation('genome_set', f'loaded genome keys {keys} are not exactly the genome set', case)
			bykey = {g['key']: j for j, g in enumerate(genomes)}
			for i, g in enumerate(db.genomes):
				j = bykey[g.key]
				si = db.sig_indices[i]
				sid = db.signatures.ids[si]
				want = genomes[j][attr]
				if (int(sid) if attr == 'ncbi_id' else sid) != want or getattr(g, attr) != want:
					raise Violation('id_mismatch', f'genome {g.key!r}: signature index {si} has id {sid!r}, genome {attr} is {want!r}', case)
				if not np.array_equal(db.signatures[si], sig_of[j]):
					raise Violation('wrong_signature', f'genome {g.key!r}: signature at index {si} is not the one written for id {want!r}', case)
			# end to end: distances
			qs = [rand_sig(case['seed'] * 100 + 90 + q) for q in range(2)] + [sig_of[0].copy()]
			for chunksize in (None, 1, 1000):
				try:
					res = query(db, qs, report_closest=n + 3, chunksize=chunksize)
				except Exception as e:
					raise Violation('exception', f'query() raised {type(e).__name__}: {e} (chunksize {chunksize})', case)
				for qi, item in enumerate(res.items):
					got = {m.genome.key: m.distance for m in item.closest_genomes}
					if len(item.closest_genomes) != n or set(got) != set(keys):
						raise Violation('closest_list', f'closest_genomes lists {len(item.closest_genomes)} genomes, database has {n}', case)
					for key, dist in got.items():
						eb = J.ref_dist_bits(qs[qi].tolist(), sig_of[bykey[key]].tolist())
						if J.float_to_bits(dist) != eb:
							raise Violation('wrong_distance', f'query {qi} vs genome {key!r}: reported {float(dist)!r}, distance to its own signature is '
							                f'{J.bits_to_float(eb)!r} (chunksize {chunksize})', case)
		finally:
			try:
				db.signatures.close()
				db.session.close()
				db.session.get_bind().dispose()
			except Exception:
				pass
		idx = list(db.sig_indices)
		if idx != list(range(n)):
			classes.append('permuted_or_padded')
		if case['n_extra']:
			classes.append('extras')
		if case['n_outside']:
			classes.append('outside_genomes')
		classes.append('names=' + case['gdb_ext'] + '+' + case['gs_ext'])
		return {'nontrivial': idx != list(range(n)), 'classes': classes}
	finally:
		shutil.rmtree(d_top, ignore_errors=True)


ID_TEXT = st.one_of(
	st.text(alphabet=st.characters(blacklist_characters='\x00', blacklist_categories=('Cs',)), min_size=1, max_size=10),
	st.sampled_from(['a,b', '"q"', ' x', 'x ', 'GCF_000001.1', 'GCA_000001.1', 'ü', '1', '01', 'None', "it's", 'a\nb', '%', '_']),
	st.text(alphabet='GCAF_0123456789.', min_size=3, max_size=14),
)


@st.composite
def gen_case(draw, tier):
	n = draw(st.integers(1, 10))
	return {
		'kind': 'db', 'n': n,
		'n_outside': draw(st.sampled_from([0, 1, 3])),
		'n_extra': draw(st.sampled_from([0, 2, 6, 1])),
		'id_attr': draw(st.sampled_from(ATTRS)),
		'permute': draw(st.sampled_from([True, True, False])),
		'neg': draw(st.one_of(st.none(), st.none(), st.sampled_from(NEG))),
		'seed': draw(st.integers(0, 2 ** 20)),
		'strings': draw(st.lists(ID_TEXT, max_size=20, unique=True)),
		'small_ints': draw(st.booleans()),
		'gdb_ext': draw(st.sampled_from(['.gdb', '.db'])),
		'gdb_state': draw(st.sampled_from(['plain', 'wal_hot', 'plain', 'wal'])),
		'dir_style': draw(st.sampled_from([None, None, 'brackets', 'star', 'question', 'range', 'space_hash', 'percent', 'dots'])),
		'gs_ext': draw(st.sampled_from(['.gs', '.h5'])),
		'shuffle_rows': draw(st.sampled_from([True, True, False])),
		'extra_files': draw(st.lists(st.sampled_from(['README.txt', 'notes', 'x.gs.bak', 'y.gdb~', 'z.fasta', 'w.hdf5', 'v.sqlite']), max_size=3, unique=True)),
	}


def strategy(tier):
	return gen_case(tier)
