"""C17 — the tree command outputs the UPGMA dendrogram of the pairwise distances."""

import os
import shutil

from hypothesis import strategies as st

from vlib.harness import Violation
from vlib import clihelp as H
from vlib.cli import run_cli
from vlib.refmodel import newick as NW
from vlib.refmodel import jaccard as RJ

ID = 'C17'
LEVEL = 'exploration'
RULE = ('Generated: 2..9 genomes (identical copies -> zero distances, few ancestors -> equidistant groups) given as positional files, a '
        'list file with base directory, or a signature file with string or integer IDs; labels with Newick metacharacters (blank, comma, '
        'colon, parentheses, brackets, quote, semicolon) and non-ASCII; -k/-p absent or given; -c. Oracle: own Newick parser (standard '
        'quote doubling); tree is rooted and strictly binary; leaf labels == input labels as multisets; branch lengths >= 0; ultrametric '
        'within tol = 1e-5 x branches; for every internal node v = (L, R) at height h_v: h_v == mean{d(i,j): i in L, j in R} (defining '
        'identity of average linkage, valid under every tie-breaking) with d = R-JAC binary32 distances of R-KMER signatures; heights '
        'monotone towards the root; greedy validity: clusters certainly active when v is formed are at mean distance >= h_v - tol; when '
        'all merges are separated by a margin the merge sets and heights equal the harness\'s own O(n^3) UPGMA. Non-trivial: n >= 3 and '
        '>= 2 distinct merge heights; distinct by case hash.')
ASSUMPTIONS = ['labels are non-empty and contain no control characters; duplicate labels are only checked structurally (leaf multiset)',
               'branch lengths are printed with about 8 significant digits: numeric comparisons use tol = 1e-5 per branch; a branch length >= -1e-9 counts as non-negative']
DEADLINE_S = {'quick': 240, 'thorough': 2400}
DEFAULT_SPEC = (11, 'ATGAC')
TOL = 1e-5


def budget(tier):
	return {'quick': 2000, 'thorough': 12000}[tier]


def run_case(case, ctx):
	n = case['n']
	mode = case['mode']
	S = tuple(case['spec'])
	E = S if case['explicit'] and mode != 'sig' else None
	genomes = H.make_genomes(case['seed'], n, nanc=case['nanc'], plant=tuple(sorted({'ATGAC', S[1]})), dup_prob=case['dup_prob'])
	d = ctx.fresh_dir('c17')
	try:
		labels_in = case['labels']
		args = ['tree']
		cwd = None
		if mode == 'sig':
			eff = S
			if case['int_ids']:
				ids = [100 + 13 * i for i in range(n)]
			else:
				ids = []
				for i in range(n):
					l = labels_in[i % len(labels_in)]
					ids.append(l if l not in ids else f'{l}#{i}')
			sigs = H.write_sigfile(os.path.join(d, 's.gs'), genomes, S[0], S[1], ids)
			labels = [str(x) for x in ids]
			args += ['-s', os.path.join(d, 's.gs')]
		else:
			eff = E or DEFAULT_SPEC
			from checks.c16_dist_command import clean_name
			rel = []
			used = set()
			for i in range(n):
				stem = labels_in[i % len(labels_in)]
				ext = case['exts'][i % len(case['exts'])]
				nm = clean_name(stem, ext, mode == 'list')
				lab = H.expected_label(nm)
				if lab in used and not case['allow_dup_labels']:
					nm = clean_name(f'{stem}_{i}', ext, mode == 'list')
					lab = H.expected_label(nm)
				used.add(lab)
				rel.append(nm if (i % 2 == 0 and nm not in rel) else os.path.join(f'g{i}', nm))
			paths = H.write_genomes(os.path.join(d, 'base'), genomes, rel, softmask=case.get('softmask'))
			labels = [H.expected_label(p) for p in rel]
			sigs = H.ref_sigs(genomes, eff[0], eff[1])
			if E:
				args += ['-k', str(E[0]), '-p', E[1]]
			if mode == 'files':
				args += paths
			else:
				lf = os.path.join(d, 'list.txt')
				H.write_listfile(lf, rel, case.get('list_style', 0))
				cwd, give = H.list_cwd_setup(case.get('list_cwd'), d, os.path.join(d, 'base'), rel, genomes)
				args += ['-l', lf] + (['--ldir', os.path.join(d, 'base')] if give else [])
		if case['cores'] is not None:
			args += ['-c', str(case['cores'])]
		args += ['--no-progress']
		res = run_cli(args, cwd=cwd)
		desc = f'`gambit {" ".join(os.path.relpath(a, d) if a.startswith(d) else a for a in args)}`'
		if res.exit_code != 0:
			raise Violation('command_failed', f'{desc}: exit {res.exit_code}: {res.stderr[-300:]} {res.exception!r} (labels {labels})', case)
		text = res.stdout
		try:
			root = NW.parse(text)
		except NW.NewickError as e:
			raise Violation('not_newick', f'{desc}: output is not a Newick tree: {e}: {text[:300]!r}', case)
		order = NW.annotate(root)
		leaves = root.leaves
		internal = [x for x in order if x.children]
		for x in internal:
			if len(x.children) != 2:
				raise Violation('not_binary', f'{desc}: internal node with {len(x.children)} children', case)
		got_labels = sorted((l.name or '') for l in leaves)
		if got_labels != sorted(labels):
			raise Violation('leaf_labels', f'{desc}: leaf labels {got_labels} != input labels {sorted(labels)}', case)
		for x in order:
			if x is not root and (x.length is None or x.length < -1e-9):
				raise Violation('branch_length', f'{desc}: branch length {x.length} (missing or negative)', case)
		depths = [l.depth for l in leaves]
		Hh = sum(depths) / len(depths)
		for l in leaves:
			if abs(l.depth - Hh) > TOL * max(1, l.nbranches):
				raise Violation('not_ultrametric', f'{desc}: leaf {l.name!r} at root distance {l.depth}, mean {Hh}', case)
		classes = [f'mode={mode}', f'n={min(n, 5)}', 'explicit_kp' if E else 'implicit_kp']
		if mode == 'list' and case.get('list_cwd'):
			classes.append('list_cwd=' + case['list_cwd'])
		unique_labels = len(set(labels)) == len(labels)
		nheights = 0
		if unique_labels:
			idx = {l: i for i, l in enumerate(labels)}
			D = [[RJ.bits_to_float(RJ.ref_dist_bits(sigs[i], sigs[j])) for j in range(n)] for i in range(n)]

			def members(x):
				return [idx[l.name] for l in x.leaves]

			def mean_d(A, B):
				return sum(D[i][j] for i in A for j in B) / (len(A) * len(B))

			def height(x):
				return Hh - x.depth
			for v in internal:
				L, R = members(v.children[0]), members(v.children[1])
				hv = height(v)
				tol = TOL * (v.nbranches + 2) + 1e-6
				m = mean_d(L, R)
				if abs(hv - m) > tol:
					raise Violation('merge_height', f'{desc}: clusters {[labels[i] for i in L]} and {[labels[i] for i in R]} are joined at height {hv!r} '
					                f'but their average distance is {m!r}', case)
				for c in v.children:
					if height(c) > hv + tol:
						raise Violation('heights_not_monotone', f'{desc}: child height {height(c)} above parent height {hv}', case)
			# greedy validity
			allnodes = order
			for v in internal:
				hv = height(v)
				tolv = TOL * (v.nbranches + 3) + 1e-6
				active = []
				for x in allnodes:
					if x is root:
						continue
					hx = height(x) if x.children else 0.0
					hp = height(x.parent)
					if hx < hv - tolv and (hp > hv + tolv or x.parent is v):
						active.append(x)
				for a in range(len(active)):
					for b in range(a + 1, len(active)):
						X, Y = members(active[a]), members(active[b])
						if set(X) & set(Y):
							continue
						if mean_d(X, Y) < hv - tolv:
							raise Violation('not_greedy', f'{desc}: clusters {[labels[i] for i in X]} and {[labels[i] for i in Y]} (average distance '
							                f'{mean_d(X, Y)!r}) were available when a merge at the larger height {hv!r} was made', case)
			merges, unique = NW.upgma(D)
			hs = sorted(round(m[2], 4) for m in merges)
			nheights = len(set(hs))
			if unique:
				want = sorted((tuple(sorted(a + b)), h) for a, b, h in merges)
				got = sorted((tuple(sorted(members(v))), height(v)) for v in internal)
				if [w[0] for w in want] != [g[0] for g in got] or any(abs(w[1] - g[1]) > TOL * n + 1e-6 for w, g in zip(want, got)):
					raise Violation('differs_from_upgma', f'{desc}: merge sets/heights {got} != UPGMA {want}', case)
				classes.append('unique_dendrogram')
			else:
				classes.append('tied_merges')
			if any(D[i][j] == 0.0 for i in range(n) for j in range(i + 1, n)):
				classes.append('zero_distance')
		else:
			classes.append('duplicate_labels')
		if any(any(ch in l for ch in " ,:()[]';") for l in labels):
			classes.append('label_needs_quoting')
		if any(ord(ch) > 127 for l in labels for ch in l):
			classes.append('label_non_ascii')
		if mode == 'sig' and case['int_ids']:
			classes.append('int_ids')
		return {'nontrivial': n >= 3 and nheights >= 2, 'classes': classes}
	finally:
		shutil.rmtree(d, ignore_errors=True)


LABEL = st.one_of(
	st.text(alphabet='abcXYZ019._-', min_size=1, max_size=10),
	st.text(alphabet="ab ,:()[]';=üé日", min_size=1, max_size=8),
	st.sampled_from(['genome', 'a,b', 'x y', "it's", 'a:b', '(paren)', '[br]', 'semi;colon', 'ü', "''", 'q"uote', 'E. coli K-12', "'", ':', '0.5', '1e5']),
)


@st.composite
def gen_case(draw, tier):
	mode = draw(st.sampled_from(['files', 'sig', 'list', 'sig']))
	return {
		'kind': 'tree', 'mode': mode, 'n': draw(st.integers(2, 9)), 'nanc': draw(st.sampled_from([1, 2, 2, 3])),
		'seed': draw(st.integers(0, 2 ** 20)), 'dup_prob': draw(st.sampled_from([0.15, 0.0, 0.4])),
		'spec': list(draw(st.sampled_from([(5, 'AT'), (6, 'AC'), (11, 'ATGAC'), (7, 'ATG'), (9, 'TA'), (17, 'AT'), (24, 'TA'), (32, 'AC'), (16, 'AT')]))),
		'explicit': draw(st.booleans()),
		'labels': draw(st.lists(LABEL, min_size=1, max_size=9)),
		'exts': draw(st.lists(st.sampled_from(['.fasta', '.fa', '.fna', '.txt', '']), min_size=1, max_size=3)),
		'int_ids': draw(st.booleans()),
		'allow_dup_labels': draw(st.integers(0, 9)) == 9,
		'cores': draw(st.sampled_from([None, 1, 4, None])),
		'list_style': draw(st.integers(0, 4)),
		'list_cwd': draw(st.sampled_from([None, 'decoy', None, 'implicit'])),
		'softmask': draw(st.sampled_from([None, 7, None, 11])),
	}


def strategy(tier):
	return gen_case(tier)
