"""C15 — the genomic distance behaves as a metric on signatures."""

import random

from hypothesis import strategies as st

from vlib.harness import Violation, HarnessError
from vlib.refmodel import jaccard as J

ID = 'C15'
LEVEL = 'exploration'
U5 = [0, 1, 7, 300, 32767]
U7 = [0, 1, 2, 7, 300, 32766, 32767]
WIDTHS = [('u2', 'u2', 'u2'), ('u2', 'u4', 'u8'), ('i8', 'i2', 'u4')]
U_ALIAS5 = [1, 2, 2 ** 16 + 1, 2 ** 32 + 1, 2 ** 32 + 2 ** 16 + 2]
WIDER = {'u2': 'u4', 'u4': 'u8', 'u8': 'u8', 'i2': 'i8', 'i4': 'u8', 'i8': 'u8'}
DMAX = {'u2': 2 ** 16 - 1, 'u4': 2 ** 32 - 1, 'u8': 2 ** 64 - 1, 'i2': 2 ** 15 - 1, 'i4': 2 ** 31 - 1, 'i8': 2 ** 63 - 1}
SLACK = 2.0 ** -22
RULE = ('Exhaustive: all ordered triples of subsets of a 5-element universe (quick, 32768 triples) / 7-element universe '
        '(thorough, 2097152 triples), each in three integer-width assignments. Generated: triples of sets (up to 2000 elements, '
        'universes up to 2^40) built as perturbations of each other (near-equal, chains A<B<C, near-disjoint, independent). '
        'Oracle: metric axioms on the binary32 results: range, identity of indiscernibles, d=1 iff disjoint and not both empty, '
        'bit-exact symmetry, triangle inequality with slack 2^-22, width independence, strict decrease when a fresh k-mer is '
        'added to both sets (asserted for |AuB| < 2^20: the two exact ratios differ by the relative amount 1/(|AuB|+1) > 2^-23, so one correct rounding to binary32 keeps them apart). Non-trivial: the three sets are pairwise different and at least one pair overlaps; '
        'enumerated triples are distinct by construction, generated ones by hash.')
ASSUMPTIONS = ['signed arrays only hold non-negative values (documented precondition)']
ENUMERATED = {'quick': ['all 32768 ordered triples of subsets of {0,1,7,300,32767} x 3 width assignments'],
              'thorough': ['all 2097152 ordered triples of subsets of {0,1,2,7,300,32766,32767} x 3 width assignments']}
DEADLINE_S = {'quick': 200, 'thorough': 2400}


def enum_cases(tier):
	for am in range(32):
		yield {'kind': 'block', 'universe': U_ALIAS5, 'amask': am, 'bmask': None, 'restrict': True}
	if tier == 'quick':
		for am in range(32):
			yield {'kind': 'block', 'universe': U5, 'amask': am, 'bmask': None}
	else:
		for am in range(128):
			for bm in range(128):
				yield {'kind': 'block', 'universe': U7, 'amask': am, 'bmask': bm}


def _dist(np, jaccarddist, x, dx, y, dy, case):
	if (len(x) + 2 * len(y)) % 3 == 0:
		# NumPy's other names for the 64-bit types (C long long: equal dtype, distinct scalar type)
		dx = {'i8': 'q', 'u8': 'Q'}.get(str(dx), dx)
		dy = {'i8': 'q', 'u8': 'Q'}.get(str(dy), dy)
	ax, ay = np.array(x, dtype=dx), np.array(y, dtype=dy)
	try:
		d = jaccarddist(ax, ay)
	except Exception as e:
		raise Violation('exception', f'jaccarddist raised {type(e).__name__}: {e}', case)
	if (3 * len(x) + len(y)) % 7 == 0 and (len(x) or len(y)):
		# the same sets stored in the other byte order: refused (ValueError / TypeError) or the same distance
		for sx, sy in ((ax.astype(ax.dtype.newbyteorder()), ay), (ax, ay.astype(ay.dtype.newbyteorder()))):
			try:
				d2 = jaccarddist(sx, sy)
			except (ValueError, TypeError):
				continue
			except Exception as e:
				raise Violation('exception', f'jaccarddist raised {type(e).__name__}: {e} for dtypes {sx.dtype},{sy.dtype}', case)
			if float(d2) != float(d):
				raise Violation('storage_changes_distance', f'distance {float(d2)!r} for dtypes {sx.dtype},{sy.dtype} but {float(d)!r} for the same sets as {ax.dtype},{ay.dtype}', case)
	return float(d)


def check_triple(np, jaccarddist, sets, dts, case, extra=None, widen=True):
	a, b, c = sets
	d = {}
	for i, j in ((0, 1), (1, 0), (0, 2), (2, 0), (1, 2), (2, 1), (0, 0), (1, 1), (2, 2)):
		d[i, j] = _dist(np, jaccarddist, sets[i], dts[i], sets[j], dts[j], case)
	for (i, j), v in d.items():
		A, B = set(sets[i]), set(sets[j])
		if not (0.0 <= v <= 1.0):
			raise Violation('range', f'd={v!r} outside [0,1] for sets {i},{j}', case)
		if (v == 0.0) != (A == B):
			raise Violation('identity', f'd={v!r} but sets equal={A == B} (sets {i},{j}; |A|={len(A)}, |B|={len(B)})', case)
		disj = (not (A & B)) and bool(A | B)
		if (v == 1.0) != disj:
			raise Violation('disjoint_iff_one', f'd={v!r} but disjoint-and-nonempty={disj} (sets {i},{j})', case)
		if J.float_to_bits(v) != J.float_to_bits(d[j, i]):
			raise Violation('symmetry', f'd({i},{j})={v!r} != d({j},{i})={d[j, i]!r} dtypes {dts[i]},{dts[j]}', case)
	for i, j, k in ((0, 1, 2), (0, 2, 1), (1, 0, 2)):
		# d(i,k) <= d(i,j) + d(j,k) + slack
		if d[i, k] > d[i, j] + d[j, k] + SLACK:
			raise Violation('triangle', f'd({i},{k})={d[i, k]!r} > d({i},{j})+d({j},{k})={d[i, j] + d[j, k]!r} + 2^-22', case)
	if widen:
		for i, j in ((0, 1), (0, 2), (1, 2)):
			v1 = _dist(np, jaccarddist, sets[i], WIDER[dts[i]], sets[j], dts[j], case)
			v2 = _dist(np, jaccarddist, sets[i], dts[i], sets[j], WIDER[dts[j]], case)
			if J.float_to_bits(v1) != J.float_to_bits(d[i, j]) or J.float_to_bits(v2) != J.float_to_bits(d[i, j]):
				raise Violation('width', f'd changes with storage width: {d[i, j]!r} vs {v1!r}/{v2!r} dtypes {dts[i]},{dts[j]}', case)
	if extra is not None:
		for i, j in ((0, 1), (0, 2), (1, 2)):
			A, B = set(sets[i]), set(sets[j])
			if extra in A or extra in B or len(A | B) >= 2 ** 20:
				continue
			A2, B2 = sorted(A | {extra}), sorted(B | {extra})
			v2 = _dist(np, jaccarddist, A2, dts[i], B2, dts[j], case)
			if d[i, j] > 0:
				if not v2 < d[i, j]:
					raise Violation('strict_decrease', f'adding {extra} to both: d {d[i, j]!r} -> {v2!r} (not strictly smaller)', case)
			elif v2 != 0.0:
				raise Violation('strict_decrease', f'adding {extra} to both equal sets: d 0 -> {v2!r}', case)
	return d


def run_case(case, ctx):
	import numpy as np
	from gambit.metric import jaccarddist
	kind = case['kind']
	if kind == 'block':
		U = case['universe']
		n = len(U)
		sub = lambda m: [U[i] for i in range(n) if m >> i & 1]
		a = sub(case['amask'])
		bms = range(2 ** n) if case['bmask'] is None else [case['bmask']]
		evals = nt = 0
		extra = 5000
		for bm in bms:
			b = sub(bm)
			for cm in range(2 ** n):
				c = sub(cm)
				for dts in WIDTHS:
					one = {'kind': 'triple', 'a': a, 'b': b, 'c': c, 'dts': list(dts), 'x': extra}
					if case.get('restrict'):
						ra, rb, rc = ([v for v in s_ if v <= DMAX[dt]] for s_, dt in zip((a, b, c), dts))
						check_triple(np, jaccarddist, (ra, rb, rc), dts, one, extra=None, widen=True)
						continue
					check_triple(np, jaccarddist, (a, b, c), dts, one, extra=extra if dts == WIDTHS[1] else None, widen=(dts == WIDTHS[0]))
					evals += 1
					if len({case['amask'], bm, cm}) == 3 and (set(a) & set(b) or set(b) & set(c) or set(a) & set(c)):
						nt += 1
		return {'evals': evals, 'nontrivial_count': nt, 'classes': ['block']}
	if kind == 'triple':
		dts = case['dts']
		sets = [sorted(v for v in set(case[k]) if v <= DMAX[dt]) for k, dt in zip('abc', dts)]
		x = case.get('x')
		if x is not None and x > min(DMAX[dt] for dt in dts):
			x = None
		d = check_triple(np, jaccarddist, sets, dts, case, extra=x)
		A, B, C = map(set, sets)
		classes = ['shape=' + case.get('shape', '?'), 'widths=' + ('same' if len(set(dts)) == 1 else 'mixed')]
		if case.get('views'):
			# the three signatures are (possibly overlapping) windows / strided views of ONE buffer, the way signatures are
			# when they come from a concatenated container or from a caller's own pool: the distance is a function of the
			# k-mer sets, so it must equal, bit for bit, the one computed from separately allocated copies
			pool = np.array(case['pool'], dtype=dts[0])
			vs = [pool[st_:st_ + ln * sp:sp] for st_, ln, sp in case['views']]
			for v, s_ in zip(vs, sets):
				if v.tolist() != list(s_):
					raise HarnessError(f'view does not hold the set it was generated for: {case["views"]}')
			overlap = False
			for i in range(3):
				for j in range(3):
					try:
						dv = float(jaccarddist(vs[i], vs[j]))
					except Exception as e:
						raise Violation('exception', f'jaccarddist raised {type(e).__name__}: {e} for views of one buffer', case)
					if J.float_to_bits(dv) != J.float_to_bits(d[i, j]):
						raise Violation('storage_changes_distance', f'd({i},{j})={dv!r} for views {case["views"][i]},{case["views"][j]} of one buffer but {d[i, j]!r} for separately allocated copies of the same sets (sets equal={set(sets[i]) == set(sets[j])})', case)
					if i != j and np.shares_memory(vs[i], vs[j]):
						overlap = True
			classes.append('views_of_one_buffer')
			if overlap:
				classes.append('views_overlap_in_memory')
		if max(map(len, sets)) >= 500:
			classes.append('size>=500')
		if A < B < C or C < B < A:
			classes.append('strict_chain')
		if x is not None:
			classes.append('fresh_kmer_added')
		nt = len({frozenset(A), frozenset(B), frozenset(C)}) == 3 and bool(A & B or B & C or A & C)
		return {'nontrivial': nt, 'classes': classes}
	raise ValueError(kind)


def budget(tier):
	return {'quick': 50000, 'thorough': 200000}[tier]


DT_TRIPLES = [('u8', 'u8', 'u8'), ('u4', 'u4', 'u4'), ('u2', 'u2', 'u2'), ('u2', 'u4', 'u8'), ('u8', 'u2', 'i4'),
              ('i8', 'i8', 'u8'), ('i2', 'u2', 'i4'), ('u4', 'i8', 'u2'), ('i4', 'i4', 'i4')]


@st.composite
def triple_case(draw, tier):
	dts = draw(st.sampled_from(DT_TRIPLES))
	lim = min(DMAX[d] for d in dts)
	shape = draw(st.sampled_from(['near_equal', 'chain', 'independent', 'near_disjoint', 'tiny', 'alias', 'views'] * 4 + ['big_near_equal']))
	rnd = random.Random(draw(st.integers(0, 2 ** 32 - 1)))
	if shape == 'big_near_equal':
		n = draw(st.sampled_from([6000, 9000, 20000, 50000]))
	elif shape == 'tiny':
		n = draw(st.integers(1, 8))
	else:
		n = draw(st.one_of(st.integers(3, 60), st.integers(3, 400), st.integers(3, 60), st.integers(400, 2000)))
	span = min(lim, rnd.choice((n * 2, n * 10, 2 ** 15, 2 ** 31, 2 ** 40)))
	span = max(span, n + 2)
	U = sorted(rnd.sample(range(span), n)) if span < 10 ** 6 else sorted({rnd.randrange(span) for _ in range(n)})
	if shape == 'alias':
		# values that collide when truncated to a narrower integer type; each set is later restricted to what its own dtype holds
		win = sorted(rnd.sample(range(1, 200), min(n, 12)))
		shifts = [0, 2 ** 16, 2 ** 32, 2 ** 32 + 2 ** 16, 2 ** 31, 2 ** 15]
		U = sorted({v + sh for v in win for sh in shifts})
		lim = max(DMAX[d] for d in dts)
		U = [u for u in U if u <= lim]
	if shape == 'views':
		# equal-length windows (one of them possibly strided) of one sorted pool: same dtype, overlapping memory
		dts = (dts[0],) * 3
		U = [u for u in U if u <= DMAX[dts[0]]]
		if len(U) < 4:
			U = sorted(set(U) | {0, 1, 2, 3})
		n = len(U)
		ln = rnd.randrange(1, max(2, n // 2))
		s1 = rnd.randrange(0, n - ln + 1)
		s2 = min(n - ln, max(0, s1 + rnd.choice((1, 1, -1, 2, ln // 2, ln, 0))))
		views = [(s1, ln, 1), (s2, ln, 1)]
		if rnd.random() < 0.5 and s1 + 2 * ln - 1 <= n:
			views.append((s1, ln, 2))
		else:
			views.append((rnd.randrange(0, n - ln + 1), ln, 1))
		a, b, c = ([U[st_ + i * sp] for i in range(l_)] for st_, l_, sp in views)
		return {'kind': 'triple', 'a': a, 'b': b, 'c': c, 'dts': list(dts), 'x': None, 'shape': shape, 'pool': U, 'views': [list(v) for v in views]}
	flip = lambda s, m: sorted(set(s) ^ set(rnd.sample(U, min(m, len(U)))))
	if shape == 'big_near_equal':
		a = list(U)
		b = flip(a, rnd.choice((1, 2, 5)))
		c = flip(a, rnd.choice((1, 2)))
	elif shape == 'near_equal':
		a = [u for u in U if rnd.random() < 0.8]
		b = flip(a, rnd.choice((1, 1, 2, 5)))
		c = flip(b, rnd.choice((1, 1, 2, 5)))
	elif shape == 'chain':
		c = list(U)
		b = [u for u in c if rnd.random() < 0.7]
		a = [u for u in b if rnd.random() < 0.7]
		if rnd.random() < 0.5:
			a, c = c, a
	elif shape == 'near_disjoint':
		k = len(U) // 3
		a, b, c = U[:k + 1], U[k:2 * k + 1], U[2 * k:]
		if rnd.random() < 0.5:
			c = sorted(set(c) | set(a[:1]))
	else:
		a = [u for u in U if rnd.random() < 0.5]
		b = [u for u in U if rnd.random() < 0.5]
		c = [u for u in U if rnd.random() < 0.5]
	if shape == 'alias':
		return {'kind': 'triple', 'a': a, 'b': b, 'c': c, 'dts': list(dts), 'x': None, 'shape': shape}
	x = None
	cand = rnd.randrange(span + 1)
	if cand not in set(U) and cand <= lim:
		x = cand
	elif span + 1 <= lim:
		x = span + 1
	return {'kind': 'triple', 'a': a, 'b': b, 'c': c, 'dts': list(dts), 'x': x, 'shape': shape}


def strategy(tier):
	return triple_case(tier)
