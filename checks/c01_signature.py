"""C01 — a signature is exactly the set of prefix-anchored k-mers on both strands."""

import itertools

from hypothesis import strategies as st

from vlib.harness import Violation
from vlib.refmodel import kmer as R

ID = 'C01'
LEVEL = 'exploration'
SPECS = [(k, p) for k in (1, 2, 3) for p in ('A', 'AT', 'TA', 'AA', 'ATA', 'ACG')]
ALPHABETS = ['ATNa', 'ACGT']
RULE = ('Exhaustive: every string over {A,T,N,a} and over {A,C,G,T} up to length L (6 quick, 8 thorough) x k in {1,2,3} x prefix in '
        '{A,AT,TA,AA,ATA,ACG}, bytes input, default and set accumulators. Generated: 1-4 sequences built from fragments (random nt, '
        'prefix, rc(prefix), prefix+k-mer, its rc, runs of the prefix letters, IUPAC/N, lower case, arbitrary bytes 0..255 incl. bytes '
        'one bit from a nucleotide) with hits aligned flush to either end or one base short; k 1..32, prefix 1..6 nt incl. palindromic '
        'and self-overlapping ones; every case run for bytes/bytearray/Bio.Seq/str(ASCII only) inputs, bare and in a list, with the '
        'set, dense (k<=10; k 11-12 sampled) and default accumulators; in 3 of 5 cases preceded by calls that fail part-way (wrong-typed / non-ASCII later sequence), which must leave no trace. Oracle R-KMER: literal scan of each strand (reverse complement '
        'built explicitly), Python-int base-4 code; values, dtype and strict monotonicity compared. Non-trivial: expected signature '
        'non-empty; distinct by case hash (enumerated strings are distinct by construction).')
RULE += ' Further generated dimensions: the KmerSpec object reached in 8 legal ways; one-shot iterables with explicit accumulators; accumulator objects re-used with and without clear(); (rare) a 1.6 M-nucleotide C/G sequence with prefix occurrences planted around power-of-two / power-of-ten offsets, forward and reverse-complemented.'
ASSUMPTIONS = ['str inputs are ASCII (seq_to_bytes encodes str as ASCII; non-ASCII str is outside the accepted domain)',
               'the dense accumulator is exercised for k <= 12 only (it allocates 4^k bytes)']
ENUMERATED = {'quick': ['all strings of length <= 6 over {A,T,N,a} and {A,C,G,T} x 18 (k,prefix) specs (196596 evaluations)'],
              'thorough': ['all strings of length <= 8 over {A,T,N,a} and {A,C,G,T} x 18 (k,prefix) specs (3145716 evaluations)']}
DEADLINE_S = {'quick': 240, 'thorough': 2400}


def enum_cases(tier):
	L, h = (6, 1) if tier == 'quick' else (8, 2)
	n = 0
	for alpha in ALPHABETS:
		for k, p in SPECS:
			yield {'kind': 'block', 'alphabet': alpha, 'k': k, 'prefix': p, 'L': L, 'head': None, 'h': h, 'spec_spelling': 0}
			for head in itertools.product(alpha, repeat=h):
				# the specification object is reached in a different legal way in each block (prefix case / type, NumPy k, pickled copy)
				n += 1
				yield {'kind': 'block', 'alphabet': alpha, 'k': k, 'prefix': p, 'L': L, 'head': ''.join(head), 'h': h, 'spec_spelling': n}


def _imports():
	import numpy as np
	from gambit.kmers import KmerSpec
	from gambit.sigs.calc import calc_signature, SetAccumulator, ArrayAccumulator
	from Bio.Seq import Seq
	return np, KmerSpec, calc_signature, SetAccumulator, ArrayAccumulator, Seq


def _compare(np, got, exp, k, what, case):
	if not isinstance(got, np.ndarray):
		raise Violation('type', f'{what}: result is {type(got).__name__}, not ndarray', case)
	if str(got.dtype) != R.ref_dtype_str(k):
		raise Violation('dtype', f'{what}: dtype {got.dtype}, expected {R.ref_dtype_str(k)} for k={k}', case)
	lst = [int(x) for x in got]
	if lst != exp:
		missing = sorted(set(exp) - set(lst))[:5]
		extra = sorted(set(lst) - set(exp))[:5]
		kind = 'values'
		if set(lst) == set(exp):
			kind = 'order'
		raise Violation(kind, f'{what}: signature {lst[:8]}{"..." if len(lst) > 8 else ""} (n={len(lst)}) != expected {exp[:8]}'
		                f'{"..." if len(exp) > 8 else ""} (n={len(exp)}); missing {missing} extra {extra}', case)


def _call(f, what, case):
	try:
		return f()
	except Exception as e:
		raise Violation('exception', f'{what}: raised {type(e).__name__}: {e}', case)


def run_case(case, ctx):
	np, KmerSpec, calc_signature, SetAccumulator, ArrayAccumulator, Seq = _imports()
	kind = case['kind']
	if kind == 'block':
		k, p = case['k'], case['prefix']
		pb = p.encode()
		kspec = R.spell_spec(KmerSpec, k, p, case.get('spec_spelling', 0))
		alpha = case['alphabet']
		L, h = case['L'], case['h']
		evals = nt = 0
		if case['head'] is None:
			strings = (''.join(t) for n in range(h) for t in itertools.product(alpha, repeat=n))
		else:
			strings = (case['head'] + ''.join(t) for n in range(L - h + 1) for t in itertools.product(alpha, repeat=n))
		for s in strings:
			sb = s.encode()
			exp = R.ref_signature([sb], k, pb)
			one = {'kind': 'seqs', 'k': k, 'prefix': p, 'seqs': [s]}
			got = _call(lambda: calc_signature(kspec, sb), 'bytes/default', one)
			_compare(np, got, exp, k, 'bytes/default', one)
			got = _call(lambda: calc_signature(kspec, [sb], accumulator=SetAccumulator(k)), 'bytes-list/set', one)
			_compare(np, got, exp, k, 'bytes-list/set', one)
			evals += 1
			if exp:
				nt += 1
		return {'evals': evals, 'nontrivial_count': nt, 'classes': ['block:' + alpha]}
	if kind == 'seqs':
		k, p = case['k'], case['prefix']
		pb = p.encode()
		kspec = R.spell_spec(KmerSpec, k, p, case.get('spec_spelling', 0))
		seqs = [s.encode('latin-1') for s in case['seqs']]
		exp = R.ref_signature(seqs, k, pb)
		ascii_ok = all(b < 128 for s in seqs for b in s)
		variants = [('bytes', lambda s: s), ('bytearray', lambda s: bytearray(s)), ('Seq', lambda s: Seq(s))]
		if ascii_ok:
			variants.append(('str', lambda s: s.decode('ascii')))
		def poison():
			# a call that fails part-way (after k-mers were found) must leave no trace in later calls
			if not case.get('poison'):
				return
			hit = pb + b'ACGT' * 8
			bad = {'bad_type': 12345, 'non_ascii_str': 'AC\u00e9GT', 'none': None}[case['poison']]
			for acc in (None, SetAccumulator(k)):
				try:
					calc_signature(kspec, [hit, R.ref_revcomp(hit), bad], accumulator=acc)
				except Exception:
					pass
		poison()
		accs = [('set', lambda: SetAccumulator(k)), ('default', lambda: None)]
		if k <= 10 or (k <= 12 and case.get('dense12')):
			accs.append(('dense', lambda: ArrayAccumulator(k)))
		for tname, conv in variants:
			for aname, mk in accs:
				what = f'{tname}/{aname}'
				if aname == 'default':
					poison()
				got = _call(lambda: calc_signature(kspec, [conv(s) for s in seqs], accumulator=mk()), what, case)
				_compare(np, got, exp, k, what, case)
			if len(seqs) == 1:
				what = f'{tname}/bare'
				got = _call(lambda: calc_signature(kspec, conv(seqs[0])), what, case)
				_compare(np, got, exp, k, what, case)
		# find_kmers: the valid k-mers of the yielded matches are exactly the definitional ones, sequence by sequence
		from gambit.kmers import find_kmers
		for si, sq in enumerate(seqs):
			exp_one = set(R.ref_signature([sq], k, pb))
			got_one = set()
			for m in _call(lambda: list(find_kmers(kspec, sq)), 'find_kmers', case):
				km = bytes(_call(m.kmer, 'KmerMatch.kmer', case))
				if len(km) != k:
					raise Violation('match_length', f'find_kmers yielded a match whose k-mer {km!r} has length {len(km)} != {k} (pos {m.pos}, reverse {m.reverse})', case)
				idx = R.ref_index(km)
				if idx is not None:
					got_one.add(idx)
					if _call(m.kmer_index, 'KmerMatch.kmer_index', case) != idx:
						raise Violation('match_index', f'KmerMatch.kmer_index() != index of KmerMatch.kmer() {km!r}', case)
			if got_one != exp_one:
				raise Violation('find_kmers', f'sequence {si}: k-mers of find_kmers matches {sorted(got_one)[:8]} != definitional {sorted(exp_one)[:8]}', case)
		# generator input (calc_file_signature passes a generator)
		got = _call(lambda: calc_signature(kspec, (s for s in seqs)), 'generator', case)
		_compare(np, got, exp, k, 'generator', case)
		got = _call(lambda: calc_signature(kspec, tuple(seqs)), 'tuple', case)
		_compare(np, got, exp, k, 'tuple', case)
		# an accumulator object that is used again: after clear() it starts from nothing, without clear() it keeps what it has
		if len(seqs) >= 2:
			first, rest = seqs[:1], seqs[1:]
			exp_first, exp_rest = R.ref_signature(first, k, pb), R.ref_signature(rest, k, pb)
			for aname, mk in accs:
				if aname == 'default':
					continue
				acc = mk()
				got = _call(lambda: calc_signature(kspec, first, accumulator=acc), f'{aname}: first use', case)
				_compare(np, got, exp_first, k, f'{aname}: first use', case)
				got = _call(lambda: calc_signature(kspec, rest, accumulator=acc), f'{aname}: second use without clear', case)
				_compare(np, got, sorted(set(exp_first) | set(exp_rest)), k, f'{aname}: second use of the same accumulator without clear() (union expected)', case)
				_call(acc.clear, f'{aname}.clear()', case)
				got = _call(lambda: calc_signature(kspec, rest, accumulator=acc), f'{aname}: use after clear', case)
				_compare(np, got, exp_rest, k, f'{aname}: use after clear()', case)
				_call(acc.clear, f'{aname}.clear()', case)
				got = _call(lambda: acc.signature(), f'{aname}: signature() after clear', case)
				_compare(np, got, [], k, f'{aname}: signature() right after clear()', case)
		# one-shot iterables together with each explicit accumulator
		for aname, mk in accs:
			if aname == 'default':
				continue
			for iname, it in (('generator', lambda: (s for s in seqs)), ('map', lambda: map(bytes, seqs)), ('iter', lambda: iter(list(seqs)))):
				what = f'{iname}/{aname}'
				got = _call(lambda: calc_signature(kspec, it(), accumulator=mk()), what, case)
				_compare(np, got, exp, k, what, case)
		classes = R.analyse(seqs, k, pb)
		if len(set(exp)) and any(True for _ in ()):
			pass
		# same k-mer found on both strands?
		fw = set()
		rv = set()
		for s in seqs:
			fw |= R.strand_kmers(s, k, pb)
			rv |= R.strand_kmers(R.ref_revcomp(s), k, pb)
		if fw & rv:
			classes.add('both_strands_same_kmer')
		if rv - fw:
			classes.add('reverse_only_kmer')
		classes.add('k:1-6' if k <= 6 else 'k:7-12' if k <= 12 else 'k:13-32')
		classes.add(f'nseqs={min(len(seqs), 3)}')
		classes.add('spec_spelling=%d' % (case.get('spec_spelling', 0) % R.SPEC_SPELLINGS))
		if case.get('poison'):
			classes.add('after_failed_call')
		if ascii_ok:
			classes.add('str_input')
		return {'nontrivial': bool(exp), 'classes': sorted(classes)}
	if kind == 'long_seams':
		# a sequence longer than any plausible internal block (1.2 M nucleotides of C/G filler, in which a prefix containing A or T
		# cannot occur) with prefix occurrences planted so that they straddle power-of-two and power-of-ten offsets
		lim = 2 if ctx.tier == 'quick' else 40
		if ctx.cache.get('c01_long', 0) >= lim and not case.get('force'):
			return {'nontrivial': False, 'classes': ['long_seams_skipped(budget)']}
		ctx.cache['c01_long'] = ctx.cache.get('c01_long', 0) + 1
		k, p = case['k'], case['prefix']
		pb = p.encode()
		kspec = KmerSpec(k, p)
		from vlib import longseq
		seq, exp, windows = longseq.build(np, case)
		got = _call(lambda: calc_signature(kspec, seq), 'bytes/default', case)
		_compare(np, got, exp, k, 'long sequence, bytes/default', case)
		got = _call(lambda: calc_signature(kspec, [R.ref_revcomp(seq)], accumulator=SetAccumulator(k)), 'revcomp/set', case)
		_compare(np, got, exp, k, 'long sequence reverse-complemented, bytes-list/set', case)
		return {'nontrivial': len(windows) >= 2, 'classes': ['long_seams', f'planted={min(len(windows), 20)}']}
	raise ValueError(kind)


def budget(tier):
	return {'quick': 20000, 'thorough': 200000}[tier]


NEAR = sorted({c ^ (1 << b) for c in b'ACGTacgt' for b in range(8)} - set(b'ACGTacgt'))
PREFIXES = ['A', 'T', 'C', 'AT', 'TA', 'CG', 'AA', 'TT', 'AAA', 'ATAT', 'ACGT', 'GATC', 'ATGAC', 'ATG', 'GC', 'TTTTTT', 'ACGTAC']


@st.composite
def seqs_case(draw, tier):
	k = draw(st.one_of(st.integers(1, 6), st.integers(7, 12), st.sampled_from([13, 16, 17, 24, 31, 32]), st.integers(1, 6)))
	prefix = draw(st.one_of(st.sampled_from(PREFIXES), st.text(alphabet='ACGT', min_size=1, max_size=6), st.text(alphabet='ACGT', min_size=7, max_size=12)))
	pb = prefix.encode()
	rcp = R.ref_revcomp(pb)
	kmer = st.text(alphabet='ACGT', min_size=k, max_size=k).map(str.encode)
	letters = ''.join(sorted(set(prefix)))
	frag = st.one_of(
		st.text(alphabet='ACGT', max_size=15).map(str.encode),
		st.just(pb),
		st.just(rcp),
		kmer.map(lambda x: pb + x),
		kmer.map(lambda x: R.ref_revcomp(pb + x)),
		st.text(alphabet=letters, min_size=1, max_size=12).map(str.encode),
		st.text(alphabet=''.join(sorted(set(rcp.decode()))), min_size=1, max_size=12).map(str.encode),
		st.text(alphabet='NRYKMSWBDHVnry-*', min_size=1, max_size=4).map(str.encode),
		st.text(alphabet='acgt', min_size=1, max_size=10).map(str.encode),
		kmer.map(lambda x: (pb + x).lower()),
		st.binary(min_size=1, max_size=3),
		st.sampled_from([b' ', b'\n', b'\t', b'\r\n', b'  ', b'\x0b', b'\x0c']),
		st.sampled_from(NEAR).map(lambda b: bytes([b])),
		kmer.map(lambda x: pb + x[:-1]),                      # one base short
		kmer.map(lambda x: R.ref_revcomp(pb + x)[1:]),          # reverse hit one base short
	)

	def one_seq():
		body = b''.join(draw(st.lists(frag, min_size=0, max_size=12 if k > 12 else 25)))
		align = draw(st.sampled_from(['none', 'none', 'fwd_start', 'fwd_end', 'rev_start', 'rev_end', 'fwd_end_short',
		                              'rev_start_short', 'exact_fwd', 'exact_rev', 'empty', 'short', 'ws_start', 'ws_end']))
		x = draw(kmer)
		if align == 'fwd_start':
			body = pb + x + body
		elif align == 'fwd_end':
			body = body + pb + x
		elif align == 'rev_start':
			body = R.ref_revcomp(pb + x) + body
		elif align == 'rev_end':
			body = body + R.ref_revcomp(pb + x)
		elif align == 'fwd_end_short':
			body = body + pb + x[:-1]
		elif align == 'rev_start_short':
			body = R.ref_revcomp(pb + x)[1:] + body
		elif align == 'exact_fwd':
			body = pb + x
		elif align == 'exact_rev':
			body = R.ref_revcomp(pb + x)
		elif align == 'ws_start':
			body = draw(st.sampled_from([b' ', b'\n', b'\t\t'])) + pb + x + body
		elif align == 'ws_end':
			body = body + pb + x[:-1] + draw(st.sampled_from([b' ', b'\n']))
		elif align == 'empty':
			body = b''
		elif align == 'short':
			body = (pb + x)[:draw(st.integers(0, len(pb) + k - 1))]
		return body.decode('latin-1')

	nseq = draw(st.sampled_from([1, 1, 2, 3, 4]))
	seqs = [one_seq() for _ in range(nseq)]
	return {'kind': 'seqs', 'k': k, 'prefix': prefix, 'seqs': seqs, 'dense12': draw(st.integers(0, 9)) == 9,
	        'spec_spelling': draw(st.sampled_from([0, 1, 2, 3, 0, 4, 5, 6, 7])),
	        'poison': draw(st.sampled_from([None, None, 'bad_type', 'non_ascii_str', 'none']))}


SEAMS = [2 ** e for e in range(12, 21)] + [10 ** 4, 10 ** 5, 10 ** 6, 3 * 2 ** 18, 2 ** 20 + 2 ** 19]


@st.composite
def long_case(draw, tier):
	k = draw(st.sampled_from([5, 8, 11, 16, 21, 32]))
	prefix = draw(st.sampled_from(['ATGAC', 'AT', 'TA', 'ATG', 'A', 'TTGACA', 'GATC', 'CAG']))
	tl = len(prefix) + k
	hits = []
	for seam in SEAMS:
		for _ in range(draw(st.integers(1, 2))):
			# an occurrence straddling the seam, or the seam shifted by k (overlap regions of block-wise searches)
			shift = draw(st.sampled_from([0, k, -k, tl, -tl]))
			hits.append([seam + shift, draw(st.integers(-tl - 1, 1)), draw(st.booleans()), draw(st.integers(0, 2 ** 20))])
	return {'kind': 'long_seams', 'k': k, 'prefix': prefix, 'length': 2 ** 20 + 2 ** 19 + 70000, 'seed': draw(st.integers(0, 2 ** 20)), 'hits': hits}


def strategy(tier):
	rare = st.sampled_from([False] * 150 + [True] + [False] * 150)
	return rare.flatmap(lambda f: long_case(tier) if f else seqs_case(tier))
