"""C03 — default classification follows the closest genome's lineage and thresholds."""

from hypothesis import strategies as st

from vlib.harness import Violation
from vlib.refmodel.taxonomy import Forest
from vlib.refmodel import jaccard as J
from vlib import taxgen

ID = 'C03'
LEVEL = 'exploration'
RULE = ('Generated (level 1, API): forests (1-3+ roots, depth <= 5, <= 14 taxa; thresholds None / random / exactly an occurring binary32 '
        'distance / one ulp (binary32 and binary64) above or below it; non-monotone along a lineage; unreportable taxa), 1..12 genomes '
        'assigned to arbitrary taxa incl. internal and threshold-less ones, binary32 distance vectors with ties at the minimum -> '
        'gambit.classify.classify(non-strict), GenomeMatch, reportable_taxon. Generated (level 2, end to end): synthetic worlds '
        'materialised on disk (.gdb + .gs) -> gambit.query.query -> QueryResultItem. Oracle R-TAX (dict model): closest at minimum '
        'distance; predicted = first lineage taxon with threshold >= d (exact binary64 comparison); primary match == closest match iff '
        'predicted; next = nearest threshold-bearing taxon below the prediction (topmost threshold-bearing one if nothing predicted); '
        'report taxon = first reportable at/above prediction; metamorphic: a larger distance only keeps or coarsens the prediction. '
        'Non-trivial: a prediction above the genome\'s own taxon, or next taxon not None; distinct by case hash.')
ASSUMPTIONS = ['distance/threshold comparison is exact in binary64 (what NumPy 1.26, pinned here, does for np.float32 <= float)']
DEADLINE_S = {'quick': 240, 'thorough': 2400}


def budget(tier):
	return {'quick': 20000, 'thorough': 400000}[tier]


def run_case(case, ctx, _objs=None):
	if case['kind'] == 'world':
		from checks import worldcheck
		return worldcheck.run_world_case(case, ctx, 'C03')
	import numpy as np
	from gambit.classify import classify, matching_taxon, GenomeMatch
	from gambit.db.models import reportable_taxon

	dists = [taxgen.f32(d) for d in case['dists']]
	genome_taxa = [g % len(case['taxa']) for g in case['genomes']][:len(dists)]
	dists = dists[:len(genome_taxa)]
	taxa = taxgen.resolve_thresholds(case['taxa'], dists)
	F = Forest(taxa)
	if _objs is None:
		tobjs, gobjs = taxgen.build_orm(taxa, genome_taxa)
	else:
		# second phase: the SAME live objects, edited in place to the new forest (a result must reflect the forest as it is now)
		tobjs, gobjs = _objs
		for i, t in enumerate(taxa):
			tobjs[i].distance_threshold = t['thr']
			tobjs[i].report = bool(t['report'])
			tobjs[i].parent = None if t['parent'] is None else tobjs[t['parent']]
			if t.get('name') is not None:
				tobjs[i].name = t['name']
	tindex = {id(t): i for i, t in enumerate(tobjs)}
	gindex = {id(g): i for i, g in enumerate(gobjs)}

	def ti(obj):
		return None if obj is None else tindex.get(id(obj), 'foreign')

	darr = np.array(dists, dtype=np.float32)
	try:
		res = classify(gobjs, darr, strict=False)
	except Exception as e:
		raise Violation('exception', f'classify raised {type(e).__name__}: {e}', case)
	dmin = min(dists)
	cm = res.closest_match
	gi = gindex.get(id(cm.genome))
	if gi is None:
		raise Violation('closest_genome', 'closest match genome is not one of the reference genomes', case)
	if float(cm.distance) != float(dmin) or J.float_to_bits(dists[gi]) != J.float_to_bits(dmin):
		raise Violation('closest_not_min', f'closest match is genome {gi} at {float(cm.distance)!r}, minimum distance is {dmin!r}', case)
	t0 = genome_taxa[gi]
	exp_pred = F.match(t0, dmin)
	if ti(cm.matched_taxon) != exp_pred:
		raise Violation('closest_matched_taxon', f'closest_match.matched_taxon = {ti(cm.matched_taxon)}, expected {exp_pred}', case)
	if ti(res.predicted_taxon) != exp_pred:
		raise Violation('predicted', f'predicted taxon {ti(res.predicted_taxon)}, expected {exp_pred} (genome taxon {t0}, lineage '
		                f'{[(x, taxa[x]["thr"]) for x in F.lineage(t0)]}, d={dmin!r})', case)
	pm = res.primary_match
	if exp_pred is None:
		if pm is not None:
			raise Violation('primary_without_prediction', 'primary match present although nothing is predicted', case)
	else:
		if pm is None or pm.genome is not cm.genome or J.float_to_bits(pm.distance) != J.float_to_bits(cm.distance) or pm.matched_taxon is not cm.matched_taxon:
			raise Violation('primary_not_closest', 'a prediction is made but the primary match is not the closest match', case)
	exp_next = F.next_taxon(t0, dmin)
	if ti(res.next_taxon) != exp_next:
		raise Violation('next_taxon', f'next taxon {ti(res.next_taxon)}, expected {exp_next} (genome taxon {t0}, lineage thresholds '
		                f'{[(x, taxa[x]["thr"]) for x in F.lineage(t0)]}, d={dmin!r}, predicted {exp_pred})', case)
	rep = reportable_taxon(res.predicted_taxon)
	if ti(rep) != F.reportable(exp_pred):
		raise Violation('report_taxon', f'reportable taxon {ti(rep)}, expected {F.reportable(exp_pred)}', case)
	# every genome: GenomeMatch default + matching_taxon + next_taxon
	for j, (g, d) in enumerate(zip(gobjs, darr)):
		gm = GenomeMatch(g, d)
		if ti(gm.matched_taxon) != F.match(genome_taxa[j], d):
			raise Violation('genome_match', f'GenomeMatch(genome {j}, {float(d)!r}).matched_taxon = {ti(gm.matched_taxon)}, expected {F.match(genome_taxa[j], d)}', case)
		nt = gm.next_taxon()
		if ti(nt) != F.next_taxon(genome_taxa[j], d):
			raise Violation('next_taxon', f'GenomeMatch(genome {j}, {float(d)!r}).next_taxon() = {ti(nt)}, expected {F.next_taxon(genome_taxa[j], d)} '
			                f'(lineage thresholds {[(x, taxa[x]["thr"]) for x in F.lineage(genome_taxa[j])]})', case)
	# metamorphic: increasing the distance keeps or coarsens the prediction (gambit outputs only)
	sd = sorted(set(dists))
	g0 = gobjs[gi]
	prev = None
	first = True
	for d in sd:
		p = matching_taxon(g0.taxon, np.float32(d))
		if not first:
			if prev is None and p is not None:
				raise Violation('monotone', f'larger distance {d!r} yields a prediction where a smaller one did not', case)
			if p is not None and prev is not None and p is not prev and p not in list(prev.ancestors()):
				raise Violation('monotone', f'larger distance {d!r} yields a more specific / unrelated prediction', case)
		prev, first = p, False

	edited = False
	if case.get('edits') and _objs is None:
		taxa2 = [dict(t) for t in case['taxa']]
		for e in case['edits']:
			i = e['i'] % len(taxa2)
			if e.get('thr') is not None:
				taxa2[i]['thr'] = e['thr']
			if e.get('parent') is not None and i > 0:
				taxa2[i]['parent'] = None if e['parent'] < 0 else e['parent'] % i
			if e.get('report') is not None:
				taxa2[i]['report'] = e['report']
		case2 = dict(case)
		case2['taxa'] = taxa2
		case2.pop('edits')
		run_case(case2, ctx, _objs=(tobjs, gobjs))
		edited = True
	classes = ['edited_in_place_then_reclassified'] if edited else []
	lin = F.lineage(t0)
	thr_lin = [taxa[x]['thr'] for x in lin]
	if any(th is not None and float(d) == th for th in (t['thr'] for t in taxa) for d in dists):
		classes.append('exact_threshold')
	if exp_pred is None:
		classes.append('no_prediction')
	if taxa[t0]['thr'] is None:
		classes.append('thresholdless_genome_taxon')
	vals = [th for th in thr_lin if th is not None]
	if vals != sorted(vals):
		classes.append('nonmonotone')
	if exp_pred is not None and F.reportable(exp_pred) != exp_pred:
		classes.append('unreportable_prediction')
	if dists.count(dmin) > 1:
		classes.append('tie_at_min')
	if any(d != dmin and abs(d - dmin) <= 1e-5 * max(dmin, 1e-3) for d in dists):
		classes.append('near_tie_at_min')
	if sum(1 for t in taxa if t['parent'] is None) > 1:
		classes.append('multi_root')
	if any(genome_taxa[j] in {t['parent'] for t in taxa} for j in range(len(genome_taxa))):
		classes.append('genome_on_internal_taxon')
	if exp_next is not None:
		classes.append('next_present')
	if exp_pred is not None and exp_pred != t0:
		classes.append('predicted_above_own')
	return {'nontrivial': (exp_pred is not None and exp_pred != t0) or exp_next is not None, 'classes': classes}


@st.composite
def gen_case(draw, tier):
	if draw(st.integers(0, 39)) == 39:
		from vlib import world as Wd
		return {'kind': 'world', 'world': draw(Wd.world(max_refs=8, max_queries=5)), 'chunksize': draw(st.sampled_from([1000, None, 1, 3])),
		        'multi_set': draw(st.sampled_from([None, 'decoy_first', None, 'decoy_last']))}
	taxa = draw(taxgen.forest())
	ng = draw(st.integers(1, 12))
	dists = draw(st.lists(taxgen.DIST, min_size=ng, max_size=ng))
	if ng >= 2 and draw(st.integers(0, 3)) == 3:
		dists[draw(st.integers(0, ng - 1))] = min(dists)     # tie at the minimum
	if ng >= 2 and draw(st.integers(0, 2)) == 2:
		# near-tie: another genome a hair above the minimum (1 binary32 ulp / a few ppm): it must not be taken for the closest
		m = min(dists)
		near = draw(st.sampled_from(['ulp', 'ppm1', 'ppm8']))
		v = taxgen.next32(m, True) if near == 'ulp' else taxgen.f32(m * (1 + (1e-6 if near == 'ppm1' else 8e-6)) + (1e-9 if m == 0 else 0))
		j = draw(st.integers(0, ng - 1))
		if dists[j] != m or dists.count(m) > 1:
			dists[j] = min(v, 1.0)
	genomes = draw(st.lists(st.integers(0, len(taxa) - 1), min_size=ng, max_size=ng))
	edits = draw(st.one_of(st.none(), st.none(), st.lists(st.fixed_dictionaries({'i': st.integers(0, 20), 'thr': st.one_of(st.none(), taxgen.THR), 'parent': st.one_of(st.none(), st.integers(-1, 20)), 'report': st.one_of(st.none(), st.booleans())}), min_size=1, max_size=3)))
	return {'kind': 'classify', 'taxa': taxa, 'genomes': genomes, 'dists': dists, 'edits': edits}


def strategy(tier):
	return gen_case(tier)
