"""C16 — the distance-matrix command labels and fills every cell correctly."""

import os
import shutil

from hypothesis import strategies as st

from vlib.harness import Violation
from vlib import world as Wd
from vlib import clihelp as H
from vlib.cli import run_cli

ID = 'C16'
LEVEL = 'exploration'
QMODES = ['q', 'ql', 'qs']
RMODES = ['r', 'rl', 'rs', 'square', 'use_db']
RULE = ('Generated: 1..5 query and 1..5 reference genomes (multi-contig FASTA, some gzip-compressed, each in its own sub-directory, file '
        'stems from a nasty file-name alphabet incl. commas, quotes, blanks and non-ASCII, FASTA / other / no extension), supplied in each '
        'of the 3 x 5 ways (-q / --ql --qdir / --qs  x  -r / --rl --rdir / --rs / --square / --use-db), -k/-p absent or given, -c in '
        '{absent,1,3,16}, progress on/off, signature-file IDs strings or integers. Oracle: CSV parsed with csv.reader: header == ["", '
        '*reference labels], row i == [query label_i, *cells], every cell string-equals format(R-JAC(sig_i, sig_j), ".4f") with R-KMER '
        'signatures under the effective parameters; --square: symmetric, 0.0000 diagonal, same labels on both axes and identical to the '
        'run with the same genomes as -q and -r. Non-trivial: >= 2 x >= 2 matrix with >= 3 distinct cell values; distinct by case hash.')
ASSUMPTIONS = ['file names contain no newline, NUL or "/" and (list-file channel) no leading/trailing blanks (lines are stripped)',
               'commands are invoked in-process through click.testing.CliRunner']
DEADLINE_S = {'quick': 240, 'thorough': 2400}
DEFAULT_SPEC = (11, 'ATGAC')
SPECS = [(5, 'AT'), (6, 'AC'), (7, 'ATG'), (11, 'ATGAC'), (8, 'TA'), (12, 'GA'), (17, 'AT'), (20, 'TA'), (32, 'AC'), (16, 'GA')]


def budget(tier):
	return {'quick': 1200, 'thorough': 12000}[tier]


def clean_name(stem, ext, for_list):
	stem = stem.replace('/', '_').replace('\x00', '_').replace('\n', '_').replace('\r', '_')
	if for_list:
		stem = stem.strip() or 'x'
	if stem in ('.', '..') or not stem:
		stem = 'x' + stem
	for e in H.FASTA_EXTS + ('.gz',):
		while stem.endswith(e):
			stem = stem[:-len(e)] or 'x'
	return stem + ext


def run_case(case, ctx):
	S = tuple(case['spec'])
	E = S if case['explicit'] else None
	qmode, rmode = case['qmode'], case['rmode']
	nq, nr = case['nq'], case['nr']
	plant = tuple(sorted({'ATGAC', S[1]}))
	genomes = H.make_genomes(case['seed'], nq + nr, nanc=case['nanc'], plant=plant)
	qgen, rgen = genomes[:nq], genomes[nq:]
	d = ctx.fresh_dir('c16')
	try:
		has_sig = qmode == 'qs' or rmode in ('rs', 'use_db')
		eff = E or (S if has_sig else DEFAULT_SPEC)
		names = case['names']
		def nm(i, for_list):
			stem, ext, gz = names[i % len(names)]
			return clean_name(stem, ext + ('.gz' if gz else ''), for_list), gz
		QS_PATH, RS_PATH = os.path.join(d, 'q.gs'), os.path.join(d, 'r.gs')
		if case.get('same_basename'):
			os.makedirs(os.path.join(d, 'queries')); os.makedirs(os.path.join(d, 'refs'))
			QS_PATH, RS_PATH = os.path.join(d, 'queries', 'signatures.gs'), os.path.join(d, 'refs', 'signatures.gs')
		args = []
		list_cwd = [None, None]    # working directory imposed by a list-file variant (at most one side), label
		W = None
		if rmode == 'use_db':
			w = dict(case['world'])
			w['k'], w['prefix'] = S
			W = Wd.get_world(ctx, w, 'c16world')
			args += ['-d', W.dir]
		args += ['dist']
		out = os.path.join(d, 'out.csv')
		args += ['-o', out]
		if E:
			args += ['-k', str(E[0]), '-p', E[1]]
		# queries
		if qmode == 'qs':
			qids = [1000 + 3 * i for i in range(nq)] if case['int_ids'] else [nm(i, False)[0] + f'#{i}' for i in range(nq)]
			qsigs = H.write_sigfile(QS_PATH, qgen, S[0], S[1], qids)
			qlabels = [str(x) for x in qids]
			args += ['--qs', QS_PATH]
		else:
			for_list = qmode == 'ql'
			rel = []
			gzs = []
			for i in range(nq):
				n_, gz = nm(i, for_list)
				# every other entry lies directly in the base directory (its list-file line then starts with the file name itself)
				rel.append(n_ if (i % 2 == 0 and n_ not in rel) else os.path.join(f'qd{i}', n_))
				gzs.append(gz)
			qpaths = H.write_genomes(os.path.join(d, 'qbase'), qgen, rel, gz=gzs, softmask=case.get('softmask'))
			qlabels = [H.expected_label(p) for p in rel]
			qsigs = H.ref_sigs(qgen, eff[0], eff[1])
			if qmode == 'q':
				for p in qpaths:
					args += ['-q', p]
			else:
				lf = os.path.join(d, 'ql.txt')
				H.write_listfile(lf, rel, case.get('list_style', 0))
				if case.get('list_cwd') and not case.get('relative') and list_cwd[0] is None:
					list_cwd[0], give = H.list_cwd_setup(case['list_cwd'], os.path.join(d, 'qscratch'), os.path.join(d, 'qbase'), rel, qgen)
					list_cwd[1] = 'q:' + case['list_cwd']
				else:
					give = True
				args += ['--ql', lf] + (['--qdir', os.path.join(d, 'qbase')] if give else [])
		# references
		if rmode == 'rs':
			rids = [5000 + 7 * i for i in range(nr)] if case['int_ids'] else [nm(i + 7, False)[0] + f'@{i}' for i in range(nr)]
			rsigs = H.write_sigfile(RS_PATH, rgen, S[0], S[1], rids)
			rlabels = [str(x) for x in rids]
			args += ['--rs', RS_PATH]
		elif rmode == 'use_db':
			from gambit.sigs.base import load_signatures
			with load_signatures(W.gs_path) as dbs:
				rlabels = [str(x) for x in dbs.ids]
				rsigs = [[int(v) for v in dbs[i]] for i in range(len(dbs))]
			args += ['--use-db']
		elif rmode == 'square':
			rlabels, rsigs = qlabels, qsigs
			args += ['--square']
		else:
			for_list = rmode == 'rl'
			rel = []
			gzs = []
			for i in range(nr):
				n_, gz = nm(i + 11, for_list)
				rel.append(n_ if (i % 2 == 0 and n_ not in rel) else os.path.join(f'rd{i}', n_))
				gzs.append(gz)
			rpaths = H.write_genomes(os.path.join(d, 'rbase'), rgen, rel, gz=gzs, softmask=case.get('softmask'))
			rlabels = [H.expected_label(p) for p in rel]
			rsigs = H.ref_sigs(rgen, eff[0], eff[1])
			if rmode == 'r':
				for p in rpaths:
					args += ['-r', p]
			else:
				lf = os.path.join(d, 'rl.txt')
				H.write_listfile(lf, rel, (case.get('list_style', 0) + 2) % 5)
				if case.get('list_cwd') and not case.get('relative') and list_cwd[0] is None:
					list_cwd[0], give = H.list_cwd_setup(case['list_cwd'], os.path.join(d, 'rscratch'), os.path.join(d, 'rbase'), rel, rgen)
					list_cwd[1] = 'r:' + case['list_cwd']
				else:
					give = True
				args += ['--rl', lf] + (['--rdir', os.path.join(d, 'rbase')] if give else [])
		if case['cores'] is not None:
			args += ['-c', str(case['cores'])]
		args += ['--progress' if case['progress'] else '--no-progress']

		cwd = list_cwd[0]
		if case.get('relative'):
			# paths given relative to the working directory
			cwd = d
		rel = (lambda lst: [os.path.relpath(a, d) if a.startswith(d + os.sep) else a for a in lst]) if case.get('relative') else (lambda lst: lst)
		if case.get('prerun') and qmode != 'qs':
			# the same command was run before on DIFFERENT content at the same paths (same labels): nothing may be remembered
			import shutil as _sh
			keep = {}
			for i, pth in enumerate(qpaths):
				keep[pth] = open(pth, 'rb').read()
				Wd.write_fasta(pth, [c_[::-1] for c_ in qgen[i]], gz=False, name='other')
			run_cli(rel(args), cwd=cwd)
			for pth, blob in keep.items():
				open(pth, 'wb').write(blob)
			if os.path.exists(out):
				os.unlink(out)
		if case.get('warmup'):
			# the same genome files were processed earlier in this process with other k-mer parameters
			wspec = next(sp for sp in ((9, 'ATG'), (10, 'AC'), (7, 'TTG')) if sp != tuple(eff))
			for paths_, tag in (((qpaths if qmode != 'qs' else []), 'q'), ((rpaths if rmode in ('r', 'rl') else []), 'r')):
				if paths_:
					run_cli(['dist', '--square', '-o', os.path.join(d, f'warm_{tag}.csv'), '--no-progress', '-k', str(wspec[0]), '-p', wspec[1]] + [x for p_ in paths_ for x in ('-q', p_)])
		if case.get('stale_output'):
			# the output path already holds a larger, older matrix: nothing of it may survive
			with open(out, 'w', encoding='utf-8') as f:
				f.write(',' + ','.join(f'old{i}' for i in range(40)) + '\n' + ('oldrow,' + ','.join(['0.1234'] * 40) + '\n') * 40)
		env = None
		if case.get('stray_db') and rmode != 'use_db':
			# a reference database is configured - root option or GAMBIT_DB_PATH - although this invocation does not use it
			ws = Wd.get_world(ctx, case['stray_world'], 'c16stray')
			if case['stray_db'] == 'env':
				env = {'GAMBIT_DB_PATH': ws.dir}
			else:
				args = ['-d', ws.dir] + args
		res = run_cli(rel(args), cwd=cwd, env=env)
		desc = f'`gambit {" ".join(os.path.relpath(a, d) if a.startswith(d) else a for a in args)}` (effective spec {eff})'
		if res.exit_code != 0:
			raise Violation('command_failed', f'{desc}: exit {res.exit_code}: {res.stderr[-300:]} {res.exception!r}', case)
		rows = H.read_csv(out)
		want = [[''] + rlabels] + [[qlabels[i]] + [H.dist_str(q, r) for r in rsigs] for i, q in enumerate(qsigs)]
		if rows != want:
			if rows[0] != want[0]:
				raise Violation('header', f'{desc}: header {rows[0]} != reference labels {want[0]}', case)
			if [r[0] for r in rows[1:]] != [r[0] for r in want[1:]]:
				raise Violation('row_labels', f'{desc}: row labels {[r[0] for r in rows[1:]]} != query labels {[r[0] for r in want[1:]]}', case)
			bad = [(i, j, rows[i + 1][j + 1], want[i + 1][j + 1]) for i in range(len(want) - 1) for j in range(len(want[0]) - 1)
			       if i + 1 < len(rows) and j + 1 < len(rows[i + 1]) and rows[i + 1][j + 1] != want[i + 1][j + 1]]
			raise Violation('cells', f'{desc}: cells (row, col, got, expected) {bad[:6]}; shape got {len(rows) - 1}x{len(rows[0]) - 1} expected {len(want) - 1}x{len(want[0]) - 1}', case)
		if rmode == 'square':
			n = len(qlabels)
			for i in range(n):
				if rows[i + 1][i + 1] != '0.0000':
					raise Violation('square_diagonal', f'{desc}: diagonal cell {i} is {rows[i + 1][i + 1]}', case)
				for j in range(n):
					if rows[i + 1][j + 1] != rows[j + 1][i + 1]:
						raise Violation('square_symmetry', f'{desc}: cell ({i},{j}) != ({j},{i})', case)
			# same genomes as both queries and references
			out2 = os.path.join(d, 'out2.csv')
			args2 = [a for a in args if a != '--square']
			args2[args2.index(out)] = out2
			if qmode == 'qs':
				args2 += ['--rs', QS_PATH]
			elif qmode == 'q':
				for p in qpaths:
					args2 += ['-r', p]
			else:
				args2 += ['--rl', os.path.join(d, 'ql.txt'), '--rdir', os.path.join(d, 'qbase')]
			res2 = run_cli(rel(args2), cwd=cwd)
			if res2.exit_code != 0:
				raise Violation('command_failed', f'square-equivalent run failed: exit {res2.exit_code}: {res2.stderr[-300:]} {res2.exception!r}', case)
			if H.read_csv(out2) != rows:
				raise Violation('square_vs_full', f'{desc}: --square output differs from supplying the same genomes as queries and references', case)
		cells = {c for r in rows[1:] for c in r[1:]}
		classes = [f'q={qmode}', f'r={rmode}', 'explicit_kp' if E else 'implicit_kp', f'cores={case["cores"]}',
		           'progress' if case['progress'] else 'no_progress', 'spec=default' if eff == DEFAULT_SPEC else 'spec=other']
		if case.get('relative'):
			classes.append('relative_paths')
		if case.get('prerun') and qmode != 'qs':
			classes.append('rerun_after_content_change')
		if case.get('stale_output'):
			classes.append('output_path_preexists')
		if list_cwd[1]:
			classes.append('list_cwd=' + list_cwd[1])
		if case.get('warmup'):
			classes.append('after_run_with_other_parameters')
		if case.get('stray_db') and rmode != 'use_db':
			classes.append('unused_database_configured=' + case['stray_db'])
		if any(any(ch in l for ch in ',"\n') for l in qlabels + rlabels):
			classes.append('label_needs_quoting')
		if any(ord(ch) > 127 for l in qlabels + rlabels for ch in l):
			classes.append('label_non_ascii')
		if case['int_ids'] and ('qs' == qmode or rmode == 'rs'):
			classes.append('int_ids')
		return {'nontrivial': len(qlabels) >= 2 and len(rlabels) >= 2 and len(cells) >= 3, 'classes': classes}
	finally:
		shutil.rmtree(d, ignore_errors=True)


STEM = st.one_of(
	st.text(alphabet='abcXYZ019._- ,', min_size=1, max_size=10),
	st.text(alphabet='abc ,"\'üé日本()[];=&%#!~@', min_size=1, max_size=8),
	st.sampled_from(['genome', 'a,b', 'x y', '"q"', 'ü', 'sample.1', 'GCF_000005845.2_ASM584v2_genomic', '-dash', 'a.b.c', ' lead', 'trail ',
	                 '#12_S1', '# note', ';semi', 'isolate_Kfa', 'xfasta', 'run3-gz', 'ecoli_alfa', 'Xfna', 'assembly.gfa', 'sample_faa', 'afrn', 'offn', 'fa', 'gz', 'x.gzip', 'Cafe\u0301_isolate', 'Scho\u0308nlein', 'sample_5\u212b', '\u1100\u1161', 'ﬁle', '\uf900x', '//c', '%x', '!bang', '~tilde', '@at', '$HOME', '*star', '?q', '[a]', '{b}', '\\back', '`tick`']),
)
EXT = st.sampled_from(['.fasta', '.fa', '.fna', '.ffn', '.faa', '.frn', '.txt', '', '.fasta', '.fa'])


@st.composite
def gen_case(draw, tier):
	qmode = draw(st.sampled_from(QMODES))
	rmode = draw(st.sampled_from(RMODES))
	has_sig = qmode == 'qs' or rmode in ('rs', 'use_db')
	spec = draw(st.sampled_from(SPECS))
	case = {
		'kind': 'dist', 'qmode': qmode, 'rmode': rmode, 'spec': list(spec),
		'explicit': draw(st.booleans()),
		'nq': draw(st.integers(1, 5)), 'nr': draw(st.integers(1, 5)), 'nanc': draw(st.sampled_from([1, 2, 2, 3])),
		'seed': draw(st.integers(0, 2 ** 20)),
		'names': draw(st.lists(st.tuples(STEM, EXT, st.booleans()).map(list), min_size=1, max_size=12)),
		'cores': draw(st.sampled_from([None, 1, 3, 16, None])),
		'progress': draw(st.booleans()),
		'int_ids': draw(st.booleans()),
		'relative': draw(st.sampled_from([False, True, False])),
		'list_style': draw(st.integers(0, 4)),
		'prerun': draw(st.sampled_from([False, False, False, True])),
		'stale_output': draw(st.sampled_from([False, False, True])),
		'list_cwd': draw(st.sampled_from([None, 'decoy', None, 'implicit'])),
		'softmask': draw(st.sampled_from([None, 5, None, 13])),
		'warmup': draw(st.sampled_from([False, True, False])),
		'same_basename': draw(st.sampled_from([False, True, False])),
	}
	if rmode == 'use_db':
		case['world'] = draw(Wd.world(max_refs=4, min_refs=1, max_queries=1, nasty_names=False))
	elif draw(st.integers(0, 3)) == 3:
		case['stray_db'] = draw(st.sampled_from(['option', 'env']))
		case['stray_world'] = draw(Wd.world(max_refs=2, min_refs=1, max_queries=1, nasty_names=False))
	return case


def strategy(tier):
	return gen_case(tier)
