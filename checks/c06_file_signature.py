"""C06 — a genome's signature depends only on its biological content."""

import gzip
import os
import random

from hypothesis import strategies as st

from vlib.harness import Violation
from vlib.refmodel import kmer as R

ID = 'C06'
LEVEL = 'exploration'
RULE = ('Generated: genomes of 1..6 contigs (0..600 nt; ACGT, IUPAC codes, N runs, lower case; contigs ending in a prefix with fewer than '
        'k bases left followed by a contig that would complete it), written as a baseline FASTA (60 columns, LF) and as a transformed '
        'file under a drawn stack of: per-contig reverse complement (plain and IUPAC-aware), contig permutation, per-character case '
        'pattern, wrap width 1..200 or none, LF/CRLF, final newline dropped, gzip (content-detected: .gz name with plain content and '
        'gzip content without .gz name), file extensions, header text. Oracle: calc_file_signature is identical for both files '
        '(metamorphic), equals the sorted union of the per-contig calc_signature results, and equals the definitional R-KMER signature '
        'of the contig list (never of the concatenation). Non-trivial: non-empty signature and >= 2 contigs; distinct by case hash.')
RULE += ' Further: differently spelled k-mer specifications; (rare) a chromosome-sized contig (1.6 M nucleotides) with prefix occurrences at block seams as plain, reverse-complemented and lower-case gzip file.'
ASSUMPTIONS = ['FASTA files are ASCII text with one header line per record; blank lines and lone CR line endings are not generated '
               '(not named by the property)']
DEADLINE_S = {'quick': 240, 'thorough': 2400}

IUPAC_COMP = {'A': 'T', 'C': 'G', 'G': 'C', 'T': 'A', 'R': 'Y', 'Y': 'R', 'K': 'M', 'M': 'K', 'B': 'V', 'V': 'B', 'D': 'H', 'H': 'D',
              'S': 'S', 'W': 'W', 'N': 'N'}
IUPAC_COMP.update({k.lower(): v.lower() for k, v in list(IUPAC_COMP.items())})


def budget(tier):
	return {'quick': 10000, 'thorough': 120000}[tier]


def iupac_rc(s):
	return ''.join(IUPAC_COMP.get(c, c) for c in reversed(s))


def plain_rc(s):
	return R.ref_revcomp(s.encode('ascii')).decode('ascii')


def fasta_text(records, width, eol, final_newline):
	lines = []
	for hdr, seq in records:
		lines.append('>' + hdr)
		if width is None:
			if seq:
				lines.append(seq)
		else:
			for i in range(0, len(seq), width):
				lines.append(seq[i:i + width])
	txt = eol.join(lines)
	if final_newline:
		txt += eol
	return txt


def run_case(case, ctx):
	import numpy as np
	from gambit.kmers import KmerSpec
	from gambit.seq import SequenceFile
	from gambit.sigs.calc import calc_file_signature, calc_signature

	if case['kind'] == 'long_contig':
		return run_long(case, ctx, np, KmerSpec, SequenceFile, calc_file_signature)
	k, prefix = case['k'], case['prefix']
	from vlib.refmodel import kmer as _RK
	kspec = _RK.spell_spec(KmerSpec, k, prefix, case.get('spec_spelling', 0))
	contigs = case['contigs']
	t = case['transform']
	d = ctx.fresh_dir()
	try:
		base_path = os.path.join(d, 'base.fasta')
		base_recs = [(f'contig{i} base', s) for i, s in enumerate(contigs)]
		with open(base_path, 'w', newline='') as f:
			f.write(fasta_text(base_recs, 60, '\n', True))

		# transformed records
		rnd = random.Random(t['seed'])
		recs = []
		for i, s in enumerate(contigs):
			o = t['orient'][i % len(t['orient'])] if t['orient'] else 'fwd'
			if o == 'rc':
				s2 = plain_rc(s)
			elif o == 'rc_iupac':
				s2 = iupac_rc(s)
			else:
				s2 = s
			cp = t['case']
			if cp == 'lower':
				s2 = s2.lower()
			elif cp == 'upper':
				s2 = s2.upper()
			elif cp == 'random':
				s2 = ''.join(c.lower() if rnd.random() < 0.5 else c.upper() for c in s2)
			elif cp == 'swap':
				s2 = s2.swapcase()
			recs.append((t['headers'][i % len(t['headers'])] if t['headers'] else f'c{i}', s2))
		perm = list(range(len(recs)))
		if t['permute']:
			rnd.shuffle(perm)
		recs = [recs[i] for i in perm]
		eol = '\r\n' if t['crlf'] else '\n'
		txt = fasta_text(recs, t['width'], eol, not t['drop_final_newline'])
		data = txt.encode('ascii')
		if t['gzip']:
			members = t.get('gz_members', 1)
			if members <= 1 or len(data) < members:
				data = gzip.compress(data, compresslevel=t.get('gzlevel', 6), mtime=0)
			else:
				# multi-member gzip (what bgzip / `cat a.gz b.gz` produce): still a valid gzip file
				cuts = sorted(random.Random(t['seed']).sample(range(1, len(data)), members - 1))
				parts = [data[a:b] for a, b in zip([0] + cuts, cuts + [len(data)])]
				data = b''.join(gzip.compress(p_, compresslevel=t.get('gzlevel', 6), mtime=0) for p_ in parts)
		tpath = os.path.join(d, 'g' + t['ext'])
		with open(tpath, 'wb') as f:
			f.write(data)

		def fsig(path, what):
			try:
				return calc_file_signature(kspec, SequenceFile(path, 'fasta', 'auto'))
			except Exception as e:
				raise Violation('exception', f'{what}: calc_file_signature raised {type(e).__name__}: {e}', case)
		if case.get('poison'):
			# a file that fails part-way through parsing (truncated gzip, after records with prefix hits) must leave no trace
			ppath = os.path.join(d, 'poison.fa.gz')
			junk = ('>p\n' + (prefix + 'ACGT' * 8 + 'T') * 300 + '\n').encode() * 3
			blob = gzip.compress(junk, mtime=0)
			with open(ppath, 'wb') as f:
				f.write(blob[:len(blob) - 20])
			try:
				calc_file_signature(kspec, SequenceFile(ppath, 'fasta', 'auto'))
			except Exception:
				pass
		sig_base = fsig(base_path, 'baseline file')
		sig_t = fsig(tpath, 'transformed file')
		exp = R.ref_signature([c.encode('ascii') for c in contigs], k, prefix.encode())
		dt = R.ref_dtype_str(k)
		for name, sig in (('baseline', sig_base), ('transformed', sig_t)):
			if str(sig.dtype) != dt:
				raise Violation('dtype', f'{name} file: dtype {sig.dtype}, expected {dt}', case)
		lb, lt = [int(x) for x in sig_base], [int(x) for x in sig_t]
		if lb != exp:
			raise Violation('baseline_vs_model', f'baseline file signature (n={len(lb)}) differs from the definitional signature of the contigs '
			                f'(n={len(exp)}): missing {sorted(set(exp) - set(lb))[:5]} extra {sorted(set(lb) - set(exp))[:5]}', case)
		if lt != lb:
			active = [f'{kk}={vv}' for kk, vv in t.items() if kk not in ('seed', 'headers')]
			raise Violation('transform_changes_signature', f'transformed file signature (n={len(lt)}) differs from baseline (n={len(lb)}): '
			                f'missing {sorted(set(lb) - set(lt))[:5]} extra {sorted(set(lt) - set(lb))[:5]}; transform {", ".join(active)}', case)
		union = set()
		for c in contigs:
			union |= {int(x) for x in calc_signature(kspec, c.encode('ascii'))}
		if sorted(union) != lb:
			raise Violation('union_of_contigs', 'file signature differs from the union of per-contig signatures', case)
	finally:
		for fn in os.listdir(d):
			os.unlink(os.path.join(d, fn))
		os.rmdir(d)

	classes = set()
	concat = R.ref_signature([''.join(contigs).encode('ascii')], k, prefix.encode())
	if set(concat) - set(exp):
		classes.add('boundary_kmer')
	for kk in ('permute', 'crlf', 'drop_final_newline', 'gzip'):
		if t[kk]:
			classes.add(kk)
	classes.add('case=' + t['case'])
	classes.add('width=' + ('none' if t['width'] is None else '1' if t['width'] == 1 else '2-59' if t['width'] < 60 else '60+'))
	if any(o != 'fwd' for o in (t['orient'] or [])):
		classes.add('contig_flipped')
	if t['gzip'] and t.get('gz_members', 1) > 1:
		classes.add('gzip_multi_member')
	if t['gzip'] != t['ext'].endswith('.gz'):
		classes.add('name_content_mismatch')
	classes.add('ext=' + (t['ext'] or 'none'))
	if any(not c for c in contigs):
		classes.add('empty_contig')
	if any(set(c.upper()) - set('ACGT') for c in contigs):
		classes.add('non_acgt')
	classes.add(f'contigs={min(len(contigs), 4)}')
	classes.add('spec_spelling=%d' % (case.get('spec_spelling', 0) % _RK.SPEC_SPELLINGS))
	if case.get('poison'):
		classes.add('after_failed_file')
	if any(len(c) > 8192 for c in contigs):
		classes.add('contig>8KiB')
	return {'nontrivial': bool(exp) and len(contigs) >= 2, 'classes': sorted(classes)}


PREFIXES = ['AT', 'ATGAC', 'A', 'TA', 'CG', 'AAA', 'ACGT', 'GATC', 'ATG', 'TT']


@st.composite
def gen_case(draw, tier):
	k = draw(st.one_of(st.integers(1, 8), st.integers(5, 12), st.sampled_from([11, 13, 16, 17, 32])))
	prefix = draw(st.one_of(st.sampled_from(PREFIXES), st.text(alphabet='ACGT', min_size=1, max_size=5)))
	pb = prefix.encode()
	kmer = st.text(alphabet='ACGT', min_size=k, max_size=k)
	frag = st.one_of(
		st.text(alphabet='ACGT', max_size=40),
		st.just(prefix), st.just(plain_rc(prefix)),
		kmer.map(lambda x: prefix + x),
		kmer.map(lambda x: plain_rc(prefix + x)),
		st.text(alphabet='N', min_size=1, max_size=12),
		st.text(alphabet='RYKMSWBDHVN', min_size=1, max_size=3),
		st.text(alphabet='acgt', min_size=1, max_size=20),
		st.text(alphabet=''.join(sorted(set(prefix))), min_size=1, max_size=10),
		st.integers(0, 2 ** 20).map(lambda seed: ''.join(random.Random(seed).choice('ACGT') for _ in range(150))),
	)
	big = draw(st.integers(0, 29)) == 29
	ncontigs = draw(st.sampled_from([1, 2, 2, 3, 4, 6]))
	contigs = []
	carry = None
	for i in range(ncontigs):
		body = ''.join(draw(st.lists(frag, min_size=0, max_size=10)))
		if carry is not None:
			body = carry + body           # starts with the bases that would complete the previous contig's dangling prefix
			carry = None
		tail = draw(st.sampled_from(['none', 'none', 'dangling_prefix', 'dangling_rc', 'full_hit']))
		x = draw(kmer)
		if tail == 'dangling_prefix':
			cut = draw(st.integers(0, k - 1))
			body = body + prefix + x[:cut]
			carry = x[cut:]
		elif tail == 'dangling_rc':
			# reverse-strand hit dangling at the *start* of the next contig
			full = plain_rc(prefix + x)
			cut = draw(st.integers(1, len(full) - 1))
			body = body + full[:cut]
			carry = full[cut:]
		elif tail == 'full_hit':
			body = body + prefix + x
		if big and i == 0:
			# a contig larger than any I/O buffer (text wrapper 8 KiB, gzip 128 KiB)
			rbig = random.Random(draw(st.integers(0, 1000)))
			nbig = draw(st.sampled_from([9000, 70000, 140000] if tier == 'thorough' else [9000, 70000, 9000]))
			body = body + ''.join(rbig.choice('ACGT') for _ in range(nbig))
			contigs.append(body)
			continue
		contigs.append(body[:600])
	n = len(contigs)
	transform = {
		'seed': draw(st.integers(0, 2 ** 20)),
		'orient': draw(st.lists(st.sampled_from(['rc', 'fwd', 'rc_iupac']), min_size=1, max_size=6)),
		'permute': draw(st.booleans()),
		'case': draw(st.sampled_from(['random', 'keep', 'lower', 'upper', 'swap'])),
		'width': draw(st.one_of(st.integers(1, 200), st.none(), st.sampled_from([1, 2, 59, 60, 61, 80]))),
		'crlf': draw(st.booleans()),
		'drop_final_newline': draw(st.booleans()),
		'gzip': draw(st.booleans()),
		'gzlevel': draw(st.sampled_from([1, 6, 9])),
		'gz_members': draw(st.sampled_from([1, 1, 2, 3])),
		'ext': draw(st.sampled_from(['.fasta', '.fa', '.fna', '.fasta.gz', '.gz', '.txt', '', '.fa.gz'])),
		'headers': draw(st.lists(st.text(alphabet='abcXYZ019_.| =-', min_size=1, max_size=20), min_size=0, max_size=3)),
	}
	return {'kind': 'genome', 'k': k, 'prefix': prefix, 'contigs': contigs, 'transform': transform, 'poison': draw(st.sampled_from([False, True, False])),
	        'spec_spelling': draw(st.sampled_from([0, 1, 0, 2, 3, 4, 5, 6, 7]))}


def run_long(case, ctx, np, KmerSpec, SequenceFile, calc_file_signature):
	"""A closed-chromosome-sized contig (1.6 M nucleotides) with prefix occurrences straddling power-of-two / power-of-ten offsets:
	file, reverse-complemented file and gzip file must all give the definitional signature."""
	lim = 1 if ctx.tier == 'quick' else 20
	if ctx.cache.get('c06_long', 0) >= lim and not case.get('force'):
		return {'nontrivial': False, 'classes': ['long_contig_skipped(budget)']}
	ctx.cache['c06_long'] = ctx.cache.get('c06_long', 0) + 1
	from vlib import longseq
	seq, exp, windows = longseq.build(np, case)
	kspec = KmerSpec(case['k'], case['prefix'])
	d = ctx.fresh_dir()
	try:
		variants = {'plain': seq, 'revcomp': R.ref_revcomp(seq), 'lower_gz': seq.lower()}
		for name, sq in variants.items():
			path = os.path.join(d, name + ('.fa.gz' if name.endswith('gz') else '.fasta'))
			w = case['width']
			body = b'>chromosome 1\n' + (b'\n'.join(sq[i:i + w] for i in range(0, len(sq), w)) if w else sq) + b'\n' + b'>plasmid\nACGTTGCAAT\n'
			with open(path, 'wb') as f:
				f.write(gzip.compress(body, 1) if name.endswith('gz') else body)
			try:
				got = calc_file_signature(kspec, SequenceFile(path, 'fasta', 'auto'))
			except Exception as e:
				raise Violation('exception', f'calc_file_signature raised {type(e).__name__}: {e} on the {name} file of a {len(seq)}-nucleotide contig', case)
			extra = R.ref_signature([b'ACGTTGCAAT'], case['k'], case['prefix'].encode())
			want = sorted(set(exp) | set(extra))
			if [int(v) for v in got] != want:
				missing = sorted(set(want) - set(int(v) for v in got))[:4]
				raise Violation('long_contig', f'{name} file of a {len(seq)}-nucleotide contig: signature has {len(got)} k-mers, definitional signature {len(want)}; missing {missing}', case)
	finally:
		import shutil
		shutil.rmtree(d, ignore_errors=True)
	return {'nontrivial': len(windows) >= 2, 'classes': ['long_contig', 'contig>1Mi']}


@st.composite
def long_case(draw, tier):
	from vlib.longseq import SEAMS
	k = draw(st.sampled_from([5, 8, 11, 16, 21, 32]))
	prefix = draw(st.sampled_from(['ATGAC', 'AT', 'TA', 'ATG', 'A', 'TTGACA', 'GATC', 'CAG']))
	tl = len(prefix) + k
	hits = []
	for seam in SEAMS:
		for _ in range(draw(st.integers(1, 2))):
			shift = draw(st.sampled_from([0, k, -k, tl, -tl]))
			hits.append([seam + shift, draw(st.integers(-tl - 1, 1)), draw(st.booleans()), draw(st.integers(0, 2 ** 20))])
	return {'kind': 'long_contig', 'k': k, 'prefix': prefix, 'length': 2 ** 20 + 2 ** 19 + 70000, 'seed': draw(st.integers(0, 2 ** 20)), 'hits': hits,
	        'width': draw(st.sampled_from([80, 60, None, 70]))}


def strategy(tier):
	rare = st.sampled_from([False] * 100 + [True] + [False] * 100)
	return rare.flatmap(lambda f: long_case(tier) if f else gen_case(tier))
