"""C05 — bulk and parallel distance computations agree bit-for-bit with the pairwise one."""

import random

from hypothesis import strategies as st

from vlib.harness import Violation
from vlib.refmodel import jaccard as J

ID = 'C05'
LEVEL = 'exploration'
RULE = ('Generated: collections of 0..40 signatures (empty, singletons, exact duplicates, a few of 5000 elements; dtypes u2/u4/u8 and '
        'signed views) held in SignatureArray, SignatureArray with int32 bounds, SignatureList, plain list, or an HDF5 file; 0..8 queries '
        'in an independently drawn dtype; function in {jaccarddist_array, jaccarddist_matrix, jaccarddist_pairwise square/flat}; '
        'chunksize in {None,1..n+1,1000}; ref_indices/indices in {None, permutation, selection with repeats, empty}; out in {None, fresh '
        'NaN-filled buffer, strided view of a larger buffer}; 1..16 OpenMP threads (1 case in 25: the same case in a fresh interpreter started with OMP_THREAD_LIMIT / OMP_DYNAMIC / OMP_SCHEDULE / OMP_NUM_THREADS / OMP_PROC_BIND set); every call repeated (3x quick, 20x thorough) to sample '
        'the dynamic schedule. Oracle: each cell bit-equals the exact rational distance rounded once to binary32 (sets <= 400 elements) '
        'and gambit.metric.jaccarddist of the pair; caller order; returned object is the supplied buffer; cells outside a strided view '
        'untouched; pairwise symmetric, zero diagonal, condensed order = squareform. Non-trivial: >= 2 references and >= 2 distinct '
        'distances in the result; distinct by case hash.')
RULE += ' Further generated dimensions: lists of mixed integer types; big-endian / unsigned bounds; queries sliced from the open reference file; the same call from 2-3 Python threads at once; (rare, capped per worker) 999..2049 references against a vectorised exact oracle; a bulk call interrupted from a SIGALRM handler followed by re-use of its out buffer, which is watched for later writes.'
ASSUMPTIONS = ['the OpenMP dynamic schedule is sampled (thread counts 1..16 x repeats), not enumerated: a data race can be missed',
               'a plain Python list of references has >= 1 element (an empty plain list carries no dtype/k-mer spec)']
DEADLINE_S = {'quick': 240, 'thorough': 2400}


def budget(tier):
	return {'quick': 30000, 'thorough': 400000}[tier]


def build_sigs(np, spec, dtype):
	"""spec: list of entries [len, seed] or ['dup', i]. Values are drawn from a small universe so sets overlap."""
	out = []
	maxlen = max([e[0] for e in spec if e[0] != 'dup'] + [1])
	universe = max(4, 3 * maxlen)
	lim = {'u2': 65535, 'i2': 32767}.get(dtype, 2 ** 31 - 1)
	universe = min(universe, lim)
	for e in spec:
		if e[0] == 'dup':
			if out:
				out.append(out[e[1] % len(out)].copy())
			else:
				out.append(np.array([], dtype=dtype))
			continue
		n, seed = e[0], e[1]
		hi = e[2] if len(e) > 2 else 0
		n = min(n, universe)
		rnd = random.Random(seed)
		vals = rnd.sample(range(universe), n)
		if hi and dtype not in ('u2', 'i2'):
			# lift some values by 2^16 (and 2^32 for 64-bit types): they alias small values when truncated to a narrower type
			shifts = [0, 2 ** 16] + ([2 ** 32, 2 ** 32 + 2 ** 16] if dtype in ('u8', 'i8') else [])
			vals = [v + rnd.choice(shifts) for v in vals]
		out.append(np.array(sorted(set(vals)), dtype=dtype))
	return out


def _as_index(np, idx, how):
	if how in (None, 'list'):
		return list(idx)
	if how == 'tuple':
		return tuple(idx)
	if how == 'array':
		return np.array(idx, dtype=np.intp)
	return np.array(idx, dtype=how)


def run_case(case, ctx):
	if case['kind'] == 'many':
		return run_many(case, ctx)
	if case['kind'] == 'interrupted':
		return run_interrupted(case, ctx)
	if case['kind'] == 'omp_env':
		# the same kind of case in a fresh interpreter whose OpenMP runtime was configured through the environment
		# (read once at load time): thread limits below the requested count, dynamic team sizes, other schedules
		lim = 5 if ctx.tier == 'quick' else 60
		if ctx.cache.get('c05_omp_env', 0) >= lim and not case.get('force'):
			return {'nontrivial': False, 'classes': ['omp_env_skipped(budget)']}
		ctx.cache['c05_omp_env'] = ctx.cache.get('c05_omp_env', 0) + 1
		from vlib.subcase import run_subcase
		r = run_subcase(ID, case['inner'], case['env'], ctx.tmpdir)
		if r:
			raise Violation('omp_env:' + r[0], f'in a process started with {case["env"]}: {r[1]}', case)
		return {'nontrivial': True, 'classes': ['omp_env'] + [f'env:{k}' for k in sorted(case['env'])]}
	import numpy as np
	from gambit.kmers import KmerSpec
	from gambit.sigs.base import SignatureArray, SignatureList, dump_signatures, load_signatures
	from gambit.metric import jaccarddist, jaccarddist_array, jaccarddist_matrix, jaccarddist_pairwise
	from gambit._cython.threads import omp_set_num_threads
	from scipy.spatial.distance import squareform

	kspec = KmerSpec(8, 'AT')
	rdt, qdt = case['ref_dtype'], case['q_dtype']
	refs = build_sigs(np, case['refs'], rdt)
	queries = build_sigs(np, case['queries'], qdt)
	n = len(refs)
	cont = case['container']
	if cont in ('pylist', 'pylist_mixed', 'list_mixed') and n == 0:
		cont = 'list'      # an empty plain list carries no k-mer spec: outside the domain
	h5 = None
	if cont == 'array':
		rc = SignatureArray(refs, kspec, dtype=np.dtype(rdt))
	elif cont == 'array_i4bounds':
		tmp = SignatureArray(refs, kspec, dtype=np.dtype(rdt))
		rc = SignatureArray.from_arrays(tmp.values, tmp.bounds.astype('i4'), kspec)
	elif cont in ('array_be_bounds', 'array_u8_bounds'):
		# bounds array of another 64-bit flavour: big-endian (arrays read from a file written elsewhere) or unsigned
		tmp = SignatureArray(refs, kspec, dtype=np.dtype(rdt))
		rc = SignatureArray.from_arrays(tmp.values, tmp.bounds.astype('>i8' if cont == 'array_be_bounds' else 'u8'), kspec)
	elif cont in ('array_window', 'hdf5_window'):
		# zero-copy window into a larger array: bounds[0] != 0 (legal: signature i is values[bounds[i]:bounds[i+1]])
		pad = [np.array([3, 9, 11], dtype=rdt), np.array([4], dtype=rdt)]
		big = SignatureArray(pad + refs + pad, kspec, dtype=np.dtype(rdt))
		rc = SignatureArray.from_arrays(big.values, big.bounds[2:2 + n + 1], kspec)
		if cont == 'hdf5_window':
			path = ctx.fresh_path('.gs')
			dump_signatures(path, rc)
			rc = h5 = load_signatures(path)
	elif cont == 'list':
		rc = SignatureList(refs, kspec, dtype=np.dtype(rdt))
	elif cont == 'pylist':
		rc = list(refs)
	elif cont in ('pylist_mixed', 'list_mixed'):
		# a plain list (or a SignatureList whose elements were replaced) holding arrays of DIFFERENT integer types:
		# each signature is a legitimate argument on its own
		alt = ['i8', 'u2', 'u4', 'i4', 'u8', 'i2']
		refs = [r if (i % 3 == 0 or r.size and int(r.max()) > 32767) else r.astype(alt[(i + len(r)) % len(alt)]) for i, r in enumerate(refs)]
		if cont == 'pylist_mixed' or not refs:
			rc = list(refs)
		else:
			rc = SignatureList([refs[0]] * len(refs), kspec)
			for i, r in enumerate(refs):
				rc[i] = r
	elif cont == 'hdf5':
		path = ctx.fresh_path('.gs')
		dump_signatures(path, SignatureArray(refs, kspec, dtype=np.dtype(rdt)))
		rc = h5 = load_signatures(path)
	else:
		raise ValueError(cont)

	def exact_bits(a, b):
		if len(a) <= 400 and len(b) <= 400:
			return J.ref_dist_bits(a.tolist(), b.tolist())
		return None

	def pair_bits(a, b):
		d = jaccarddist(a, b)
		bits = J.float_to_bits(d)
		eb = exact_bits(a, b)
		if eb is not None and eb != bits:
			raise Violation('pairwise_wrong', f'jaccarddist of a pair is {float(d)!r}, exact value rounds to {J.bits_to_float(eb)!r}', case)
		return bits

	if case.get('poison'):
		# calls that are rejected (bad dtype / wrong out shape) must not influence later ones
		for bad in (lambda: jaccarddist(np.array([0.5]), refs[0] if refs else np.array([1], dtype=rdt)),
		            lambda: jaccarddist_array(queries[0] if queries else np.array([1], dtype=qdt), rc, out=np.zeros(n + 3, dtype=np.float32)),
		            lambda: jaccarddist_matrix(list(queries), rc, out=np.zeros((1, 1), dtype=np.float64)),
		            lambda: jaccarddist_pairwise(rc, out=np.zeros((n + 1, n), dtype=np.float32))):
			try:
				bad()
			except Exception:
				pass
	func = case['func']
	threads = case['threads']
	repeats = case['repeats'] if cont in ('array', 'array_i4bounds', 'array_be_bounds', 'array_u8_bounds', 'hdf5', 'array_window', 'hdf5_window') else 1
	sentinel = np.float32(-7.25)
	classes = (['concurrent_python_callers'] if case.get('py_threads', 1) > 1 and func in ('array', 'matrix') else []) + [f'func={func}', f'container={cont}', f'threads={"1" if threads == 1 else "2-4" if threads <= 4 else "5-16"}',
	           f'rdt={rdt}', 'mixed_dtype' if rdt[1] != qdt[1] else 'same_width']
	all_bits = set()
	try:
		omp_set_num_threads(threads)
		if threads > n >= 1:
			classes.append('threads>refs')

		def make_out(shape):
			mode = case['out']
			if mode == 'none':
				return None, None, None
			if mode == 'fresh':
				o = np.full(shape, np.nan, dtype=np.float32)
				return o, None, None
			# strided view of a larger buffer
			big_shape = tuple(2 * s + 1 for s in shape)
			big = np.full(big_shape, sentinel, dtype=np.float32)
			view = big[tuple(slice(1, 1 + 2 * s, 2) for s in shape)]
			assert view.shape == tuple(shape)
			mask = np.ones(big_shape, dtype=bool)
			mask[tuple(slice(1, 1 + 2 * s, 2) for s in shape)] = False
			return view, big, mask

		def check_out(res, o, big, mask, shape):
			if not isinstance(res, np.ndarray) or res.dtype != np.float32 or res.shape != tuple(shape):
				raise Violation('result_shape', f'{func}: result {type(res).__name__} dtype {getattr(res, "dtype", None)} shape {getattr(res, "shape", None)}, expected float32 {tuple(shape)}', case)
			if o is not None and res is not o:
				raise Violation('out_not_returned', f'{func}: returned array is not the supplied out buffer', case)
			if big is not None and not np.all(big[mask] == sentinel):
				raise Violation('out_overrun', f'{func}: cells outside the strided out view were written', case)

		def concurrent_same(fn, res, what):
			# the same call made from several Python threads at once (a threaded server): every caller gets the same cells
			T = case.get('py_threads', 1)
			if T <= 1:
				return
			import threading
			outs, errs = [None] * T, []

			def work(i):
				try:
					outs[i] = fn()
				except Exception as e:   # noqa
					errs.append(e)
			ths = [threading.Thread(target=work, args=(i,)) for i in range(T)]
			for t_ in ths:
				t_.start()
			for t_ in ths:
				t_.join()
			if errs:
				raise Violation('exception', f'{what} called from {T} Python threads at once raised {type(errs[0]).__name__}: {errs[0]}', case)
			for o_ in outs:
				if o_.shape != res.shape or not np.array_equal(np.ascontiguousarray(o_).view(np.uint32), np.ascontiguousarray(res).view(np.uint32)):
					raise Violation('concurrent_callers', f'{what} called from {T} Python threads at once: a caller received other cells than the single call gave '
					                f'(container {cont}, threads {threads})', case)

		for rep in range(repeats):
			if func == 'array':
				if not queries:
					break
				q = queries[0]
				o, big, mask = make_out((n,))
				try:
					res = jaccarddist_array(q, rc, out=o)
				except Exception as e:
					raise Violation('exception', f'jaccarddist_array raised {type(e).__name__}: {e}', case)
				check_out(res, o, big, mask, (n,))
				for j in range(n):
					eb = pair_bits(q, refs[j])
					gb = J.float_to_bits(res[j])
					all_bits.add(gb)
					if gb != eb:
						raise Violation('cell', f'jaccarddist_array[{j}] = {float(res[j])!r} but pairwise distance is {J.bits_to_float(eb)!r} '
						                f'(container {cont}, threads {threads}, repeat {rep})', case)
				if rep == 0:
					concurrent_same(lambda: jaccarddist_array(q, rc), res, 'jaccarddist_array')
			elif func == 'matrix':
				ri = case['indices']
				if ri is not None:
					ri = [i % n for i in ri] if n else []
					sel = ri
					ri_arg = _as_index(np, ri, case.get('indices_as'))
				else:
					sel = list(range(n))
					ri_arg = None
				cs = case['chunksize']
				shape = (len(queries), len(sel))
				o, big, mask = make_out(shape)
				qarg = SignatureArray(queries, kspec, dtype=np.dtype(qdt)) if case.get('q_container') == 'array' else list(queries)
				if case.get('q_from_refs') and h5 is not None and n >= 2:
					# the queries are a slice of the very collection (open file) that also serves as references
					a_, b_ = sorted((case['q_from_refs'][0] % n, case['q_from_refs'][1] % n))
					b_ = max(b_, a_ + 1)
					qarg = rc[a_:b_]
					queries = [refs[i] for i in range(a_, b_)]
					shape = (len(queries), len(sel))
					o, big, mask = make_out(shape)
					classes.append('queries_sliced_from_reference_file')
				try:
					res = jaccarddist_matrix(qarg, rc, ref_indices=ri_arg, out=o, chunksize=cs)
				except Exception as e:
					raise Violation('exception', f'jaccarddist_matrix raised {type(e).__name__}: {e}', case)
				check_out(res, o, big, mask, shape)
				for i, q in enumerate(queries):
					for jj, j in enumerate(sel):
						eb = pair_bits(q, refs[j])
						gb = J.float_to_bits(res[i, jj])
						all_bits.add(gb)
						if gb != eb:
							raise Violation('cell', f'jaccarddist_matrix[{i},{jj}] (ref {j}) = {float(res[i, jj])!r} but pairwise distance is '
							                f'{J.bits_to_float(eb)!r} (container {cont}, chunksize {cs}, ref_indices {ri}, threads {threads}, repeat {rep})', case)
				if rep == 0:
					concurrent_same(lambda: jaccarddist_matrix(qarg, rc, ref_indices=ri_arg, chunksize=cs), res, 'jaccarddist_matrix')
				if cs is not None and cs < len(sel):
					classes.append('multi_chunk')
				if ri is not None:
					classes.append('ref_indices' + ('_repeats' if len(set(ri)) < len(ri) else ''))
			else:
				flat = func == 'pairwise_flat'
				ind = case['indices']
				if ind is not None:
					ind = [i % n for i in ind] if n else []
					sel = ind
					ind_arg = _as_index(np, ind, case.get('indices_as'))
				else:
					sel = list(range(n))
					ind_arg = None
				m = len(sel)
				shape = (m * (m - 1) // 2,) if flat else (m, m)
				o, big, mask = make_out(shape)
				try:
					res = jaccarddist_pairwise(rc, indices=ind_arg, flat=flat, out=o)
				except Exception as e:
					raise Violation('exception', f'jaccarddist_pairwise raised {type(e).__name__}: {e}', case)
				check_out(res, o, big, mask, shape)
				full = np.zeros((m, m), dtype=np.float32)
				if flat:
					if m >= 2:
						full = squareform(res).astype(np.float32) if len(res) else full
					pos = 0
					for a in range(m):
						for b in range(a + 1, m):
							eb = pair_bits(refs[sel[a]], refs[sel[b]])
							gb = J.float_to_bits(res[pos])
							all_bits.add(gb)
							if gb != eb:
								raise Violation('cell', f'condensed[{pos}] (pair {a},{b}) = {float(res[pos])!r}, pairwise distance {J.bits_to_float(eb)!r}', case)
							pos += 1
				else:
					for a in range(m):
						if J.float_to_bits(res[a, a]) != 0:
							raise Violation('diagonal', f'pairwise[{a},{a}] = {float(res[a, a])!r}', case)
						for b in range(m):
							if a == b:
								continue
							eb = pair_bits(refs[sel[a]], refs[sel[b]])
							gb = J.float_to_bits(res[a, b])
							all_bits.add(gb)
							if gb != eb:
								raise Violation('cell', f'pairwise[{a},{b}] = {float(res[a, b])!r}, pairwise distance {J.bits_to_float(eb)!r} '
								                f'(container {cont}, indices {ind}, threads {threads})', case)
							if J.float_to_bits(res[b, a]) != gb:
								raise Violation('symmetry', f'pairwise[{a},{b}] != pairwise[{b},{a}]', case)
				if ind is not None:
					classes.append('indices' + ('_repeats' if len(set(ind)) < len(ind) else ''))
	finally:
		omp_set_num_threads(4)
		if h5 is not None:
			h5.close()
	if any(len(r) == 0 for r in refs):
		classes.append('empty_signature')
	if any(e[0] == 'dup' for e in case['refs']):
		classes.append('duplicate_signature')
	if any(len(r) and int(r[-1]) >= 2 ** 16 for r in refs + queries):
		classes.append('values>=2^16')
	if any(len(r) >= 1000 for r in refs):
		classes.append('big_signature')
	if n == 0:
		classes.append('no_refs')
	classes.append('out=' + case['out'])
	return {'nontrivial': n >= 2 and len(all_bits) >= 2, 'classes': classes}


@st.composite
def bulk_case(draw, tier):
	sig_entry = st.one_of(
		st.tuples(st.one_of(st.integers(0, 3), st.integers(0, 40), st.integers(0, 40)), st.integers(0, 2 ** 20), st.sampled_from([0, 1, 0])).map(list),
		st.tuples(st.just('dup'), st.integers(0, 40)).map(list),
	)
	nref_max = draw(st.sampled_from([3, 8, 20, 40]))
	refs = draw(st.lists(sig_entry, min_size=draw(st.sampled_from([2, 0, 3, 2])), max_size=nref_max))
	if draw(st.integers(0, 14)) == 14:
		refs = refs + [[5000, draw(st.integers(0, 1000))], [4000, draw(st.integers(0, 1000))]]
	queries = draw(st.lists(sig_entry, min_size=0, max_size=8))
	if not queries or draw(st.integers(0, 3)) > 0:
		queries = [[draw(st.integers(0, 40)), draw(st.integers(0, 2 ** 20))]] + queries
	n = len(refs)
	func = draw(st.sampled_from(['matrix', 'array', 'pairwise', 'pairwise_flat', 'matrix']))
	idx = st.one_of(
		st.none(),
		st.permutations(list(range(n))) if n else st.just([]),
		st.lists(st.integers(0, max(n - 1, 0)), min_size=0, max_size=n + 3),
		st.just([]),
	)
	return {
		'kind': 'bulk',
		'refs': refs,
		'queries': queries,
		'ref_dtype': draw(st.sampled_from(['u2', 'u4', 'u8', 'i2', 'i4', 'i8'])),
		'q_dtype': draw(st.sampled_from(['u4', 'u2', 'u8', 'i8'])),
		'container': draw(st.sampled_from(['array', 'list', 'pylist', 'hdf5', 'array_i4bounds', 'array', 'array_window', 'hdf5_window', 'array_be_bounds', 'array_u8_bounds', 'pylist_mixed', 'list_mixed'])),
		'q_container': draw(st.sampled_from(['list', 'array'])),
		'func': func,
		'chunksize': draw(st.one_of(st.none(), st.integers(1, n + 1), st.just(1000), st.just(1), st.just(2))),
		'indices': draw(idx),
		'indices_as': draw(st.sampled_from(['list', 'array', 'int32', 'uint8', 'int64', 'uint64', 'list'])),
		'out': draw(st.sampled_from(['none', 'fresh', 'strided'])),
		'threads': draw(st.one_of(st.integers(2, 16), st.sampled_from([16, 2, 1, 3]), st.integers(1, 16))),
		'repeats': 3 if tier == 'quick' else 20,
		'poison': draw(st.sampled_from([False, False, True])),
		'py_threads': draw(st.sampled_from([1, 1, 3, 1, 2])),
		'q_from_refs': draw(st.one_of(st.none(), st.tuples(st.integers(0, 40), st.integers(0, 40)).map(list))),
	}


def run_many(case, ctx):
	"""More references than any plausible internal chunk (1000, 1024, 2048): all-pairs and query-by-reference results against a
	vectorised exact oracle (tiny signatures over a universe of < 64 values, so the float64 quotient rounds to binary32 exactly once)."""
	import numpy as np
	from gambit.kmers import KmerSpec
	from gambit.sigs.base import SignatureArray, SignatureList, dump_signatures, load_signatures
	from gambit.metric import jaccarddist_matrix, jaccarddist_pairwise
	from gambit._cython.threads import omp_set_num_threads
	lim = 2 if ctx.tier == 'quick' else 30
	if ctx.cache.get('c05_many', 0) >= lim and not case.get('force'):
		return {'nontrivial': False, 'classes': ['many_refs_skipped(budget)']}
	ctx.cache['c05_many'] = ctx.cache.get('c05_many', 0) + 1
	n, U = case['n'], case['universe']
	rng = np.random.default_rng(case['seed'])
	M = rng.random((n, U)) < rng.uniform(0.1, 0.6, size=(n, 1))
	M[rng.integers(0, n, size=n // 50)] = M[0]            # duplicates
	sigs = [np.flatnonzero(row).astype('u2') for row in M]
	kspec = KmerSpec(8, 'AT')
	Mi = M.astype(np.int64)
	inter = Mi @ Mi.T
	sizes = Mi.sum(axis=1)
	union = sizes[:, None] + sizes[None, :] - inter
	with np.errstate(invalid='ignore', divide='ignore'):
		exp = np.where(union > 0, (union - inter) / np.maximum(union, 1), 0.0).astype(np.float32)
	cont = case['container']
	h5 = None
	if cont == 'hdf5':
		path = ctx.fresh_path('.gs')
		dump_signatures(path, SignatureArray(sigs, kspec, dtype=np.dtype('u2')))
		rc = h5 = load_signatures(path)
	elif cont == 'array':
		rc = SignatureArray(sigs, kspec, dtype=np.dtype('u2'))
	else:
		rc = SignatureList(sigs, kspec, dtype=np.dtype('u2'))
	try:
		omp_set_num_threads(case['threads'])
		func = case['func']
		try:
			if func == 'pairwise':
				res = jaccarddist_pairwise(rc)
			elif func == 'pairwise_flat':
				from scipy.spatial.distance import squareform
				res = squareform(jaccarddist_pairwise(rc, flat=True))
			else:
				qi = list(range(0, n, max(1, n // 7)))
				res_q = jaccarddist_matrix([sigs[i] for i in qi], rc, chunksize=case['chunksize'])
				res = None
		except Exception as e:
			raise Violation('exception', f'{func} on {n} references raised {type(e).__name__}: {e}', case)
		if res is not None:
			bad = np.argwhere(np.asarray(res, dtype=np.float32).view(np.uint32) != exp.view(np.uint32))
			if func == 'pairwise_flat':
				bad = np.array([b for b in bad if b[0] != b[1]])
			if len(bad):
				a, b = map(int, bad[0])
				raise Violation('cell_many', f'jaccarddist_pairwise ({func}) on {n} signatures in a {cont}: cell ({a},{b}) = {float(res[a, b])!r}, exact distance '
				                f'{float(exp[a, b])!r}; {len(bad)} cells differ', case)
		else:
			sub = exp[qi, :]
			bad = np.argwhere(np.asarray(res_q, dtype=np.float32).view(np.uint32) != sub.view(np.uint32))
			if len(bad):
				a, b = map(int, bad[0])
				raise Violation('cell_many', f'jaccarddist_matrix (chunksize {case["chunksize"]}) against {n} references in a {cont}: cell ({a},{b}) = '
				                f'{float(res_q[a, b])!r}, exact distance {float(sub[a, b])!r}; {len(bad)} cells differ', case)
	finally:
		omp_set_num_threads(4)
		if h5 is not None:
			h5.close()
	return {'nontrivial': True, 'classes': ['many_refs', f'n={n}', f'container={cont}', f'func={func}']}


class _Interrupt(Exception):
	pass


def run_interrupted(case, ctx):
	"""A bulk call into a caller-supplied out buffer is interrupted by an exception raised from a signal handler (Ctrl-C, an alarm
	based time-out); the SAME buffer is then used for another call. Afterwards nothing may still be writing into it."""
	import signal, time
	import numpy as np
	from gambit.kmers import KmerSpec
	from gambit.sigs.base import SignatureArray
	from gambit.metric import jaccarddist_matrix, jaccarddist
	from gambit._cython.threads import omp_set_num_threads
	lim = 2 if ctx.tier == 'quick' else 20
	if ctx.cache.get('c05_intr', 0) >= lim and not case.get('force'):
		return {'nontrivial': False, 'classes': ['interrupted_skipped(budget)']}
	ctx.cache['c05_intr'] = ctx.cache.get('c05_intr', 0) + 1
	rng = np.random.default_rng(case['seed'])
	kspec = KmerSpec(11, 'AT')
	nref, nq = case['nref'], case['nq']
	big = [np.unique(rng.integers(0, 4 ** 11, size=case['siglen'], dtype=np.uint32)) for _ in range(nref)]
	qs = [np.unique(rng.integers(0, 4 ** 11, size=case['siglen'], dtype=np.uint32)) for _ in range(nq)]
	refs = SignatureArray(big, kspec, dtype=np.dtype('u4'))
	out = np.full((nq, nref), np.nan, dtype=np.float32)
	# second, small problem whose result is known
	small_q = [big[i] for i in range(nq)]
	expected = np.array([[jaccarddist(q, r) for r in big] for q in small_q], dtype=np.float32)

	def handler(signum, frame):
		raise _Interrupt()
	old = signal.signal(signal.SIGALRM, handler)
	interrupted = False
	try:
		omp_set_num_threads(case['threads'])
		try:
			try:
				signal.setitimer(signal.ITIMER_REAL, case['delay_ms'] / 1000.0)
				for _ in range(50):
					jaccarddist_matrix(qs, refs, out=out)
			finally:
				signal.setitimer(signal.ITIMER_REAL, 0)
		except _Interrupt:
			# wherever the handler fired (inside the call, between two calls, or while the timer was being cancelled)
			interrupted = True
			signal.setitimer(signal.ITIMER_REAL, 0)
		try:
			res = jaccarddist_matrix(small_q, refs, out=out)
		except Exception as e:
			raise Violation('exception', f'bulk call after an interrupted one raised {type(e).__name__}: {e}', case)
		first = np.array(res, copy=True)
		time.sleep(0.15)
		later = np.array(out, copy=True)
	finally:
		signal.signal(signal.SIGALRM, old)
		omp_set_num_threads(4)
	if not np.array_equal(first.view(np.uint32), expected.view(np.uint32)):
		raise Violation('cell_after_interrupt', 'the bulk call following an interrupted one returned cells that differ from the pairwise distances', case)
	if not np.array_equal(later.view(np.uint32), expected.view(np.uint32)):
		n_bad = int((later.view(np.uint32) != expected.view(np.uint32)).sum())
		raise Violation('buffer_written_later', f'{n_bad} cells of the caller\'s out buffer changed AFTER the call had returned: something started by the earlier, '
		                f'interrupted call is still writing into it', case)
	return {'nontrivial': interrupted, 'classes': ['interrupted_call', 'interrupt_delivered' if interrupted else 'interrupt_too_late']}


OMP_ENVS = [{'OMP_THREAD_LIMIT': '2'}, {'OMP_THREAD_LIMIT': '3'}, {'OMP_THREAD_LIMIT': '1'}, {'OMP_DYNAMIC': 'true'},
            {'OMP_DYNAMIC': 'true', 'OMP_THREAD_LIMIT': '5'}, {'OMP_SCHEDULE': 'static'}, {'OMP_SCHEDULE': 'guided,2'},
            {'OMP_NUM_THREADS': '64'}, {'OMP_NUM_THREADS': '1'}, {'OMP_MAX_ACTIVE_LEVELS': '1', 'OMP_THREAD_LIMIT': '2'},
            {'OMP_PROC_BIND': 'true'}, {'OMP_WAIT_POLICY': 'active', 'OMP_THREAD_LIMIT': '2'}]


@st.composite
def omp_env_case(draw, tier):
	inner = draw(bulk_case(tier))
	inner['threads'] = draw(st.sampled_from([4, 8, 16, 5]))
	inner['container'] = draw(st.sampled_from(['array', 'list', 'array', 'hdf5']))
	return {'kind': 'omp_env', 'env': draw(st.sampled_from(OMP_ENVS)), 'inner': inner}


many_case = st.builds(lambda n, sd, c, f, t, cs: {'kind': 'many', 'n': n, 'universe': 40, 'seed': sd, 'container': c, 'func': f, 'threads': t, 'chunksize': cs},
                      st.sampled_from([1001, 1030, 1000, 2049, 1025, 999, 2001]), st.integers(0, 2 ** 20), st.sampled_from(['hdf5', 'array', 'hdf5', 'list']),
                      st.sampled_from(['pairwise', 'matrix', 'pairwise_flat', 'pairwise']), st.sampled_from([1, 4, 16]), st.sampled_from([None, 1000, 512, 1001]))


intr_case = st.builds(lambda sd, d, t: {'kind': 'interrupted', 'seed': sd, 'nref': 300, 'nq': 8, 'siglen': 3000, 'delay_ms': d, 'threads': t},
                      st.integers(0, 2 ** 20), st.sampled_from([3, 8, 15, 30]), st.sampled_from([1, 4, 8]))


def strategy(tier):
	rare = st.sampled_from([False] * 12 + [True] + [False] * 12)
	rare_m = st.sampled_from([False] * 100 + [True, 'intr'] + [False] * 100)
	return rare.flatmap(lambda f: omp_env_case(tier) if f else rare_m.flatmap(lambda g: intr_case if g == 'intr' else many_case if g else bulk_case(tier)))
