"""C18 — using a reference database never modifies it (stateful: histories of commands and library calls)."""

import hashlib
import os
import shutil

from hypothesis import strategies as st

from vlib.harness import Violation
from vlib import world as Wd
from vlib import clihelp as H
from vlib.cli import run_cli

ID = 'C18'
LEVEL = 'exploration'
RULE = ('Generated histories (model-based, 5..25 steps) over a fresh copy of a synthetic database directory whose genome file is put into a drawn valid SQLite configuration (default rollback journal, WAL, PERSIST, other page size, user_version, older table layout without the optional extra columns, additional tables / indices / views, WAL mode with the last committed transaction still in the -wal file beside the genome file, a hot rollback journal beside a half-written file). Steps: CLI query (files / list '
        '/ -s; csv / json / archive; --strict), dist --use-db, dist with mismatching parameters (fails), signatures info -d (plain / -j / '
        '-i / -jp), signatures create --db-params, tree, commands with bad arguments or missing files; library: ReferenceDatabase.load_from_dir '
        '+ query() (optionally left open across steps), load_genomeset / file_sessionmaker default session followed by an ORM edit (change '
        'attribute / add Genome / delete Taxon) and a drawn sequence of flush / autoflushing query / commit / rollback / close, opening the '
        'signature file twice, taking / releasing an exclusive advisory lock on the signature file from another open file description, closing kept handles. Invariant after every step: sha256 and size of the .gdb and .gs equal their initial '
        'values; a raw SELECT on the edited session\'s own connection still shows the original rows (nothing flushed); commit() raised. '
        'Non-trivial: a history with a mutation attempt or a failing command between two successful queries; distinct by case hash.')
ASSUMPTIONS = ['only the bytes of the genome file and the signature file are compared (the statement does not speak about other files in the directory)',
               'commands are invoked in-process through click.testing.CliRunner']
DEADLINE_S = {'quick': 240, 'thorough': 2400}


def budget(tier):
	return {'quick': 500, 'thorough': 6000}[tier]


def digest(path):
	h = hashlib.sha256()
	with open(path, 'rb') as f:
		while True:
			b = f.read(1 << 20)
			if not b:
				break
			h.update(b)
	return h.hexdigest(), os.path.getsize(path)


def run_case(case, ctx):
	import numpy as np
	from sqlalchemy import text
	W = Wd.get_world(ctx, case['world'], 'c18world')
	d = ctx.fresh_dir('c18')
	dbdir = os.path.join(d, 'db')
	shutil.copytree(W.dir, dbdir)
	gdb = os.path.join(dbdir, 'world.gdb')
	gs = os.path.join(dbdir, 'world.gs')
	# database configuration variants: any valid SQLite journal mode / page layout is a legitimate genome file
	mode = case.get('gdb_mode', 'default')
	if mode == 'wal_hot':
		# the directory was copied while a curator had the genome file open in WAL mode: the last committed transaction still
		# sits in world.gdb-wal beside the genome file (a valid SQLite database state; every reader sees the committed rows)
		import sqlite3
		work = os.path.join(d, 'curator.gdb')
		shutil.copy(gdb, work)
		con = sqlite3.connect(work)
		con.execute('PRAGMA journal_mode=WAL')
		con.execute('PRAGMA wal_autocheckpoint=0')
		con.execute("UPDATE genomes SET description = description || ' (curated)'")
		con.commit()
		for suf in ('', '-wal', '-shm'):
			shutil.copy(work + suf, gdb + suf)
		con.close()
	elif mode == 'hot_journal':
		# a writer crashed in the middle of a transaction: a hot rollback journal lies beside a partly written genome file.
		# Readers may refuse such a database, but a read-side command has no business rolling it back (= rewriting the file).
		import sqlite3
		pid = os.fork()
		if pid == 0:
			try:
				con = sqlite3.connect(gdb, isolation_level=None)
				con.execute('PRAGMA journal_mode=DELETE')
				con.execute('PRAGMA cache_size=1')
				con.execute('BEGIN IMMEDIATE')
				con.execute("UPDATE genomes SET description = description || ' (half-written edit)'")
				con.execute("UPDATE taxa SET name = name || ' (half-written edit)'")
				con.execute('CREATE TABLE spill (x)')
				con.executemany('INSERT INTO spill VALUES (?)', [('y' * 3000,) for _ in range(40)])
			finally:
				os._exit(0)
		os.waitpid(pid, 0)
		if not os.path.exists(gdb + '-journal'):
			mode = 'default'
	elif mode != 'default':
		import sqlite3
		con = sqlite3.connect(gdb)
		if mode == 'wal':
			con.execute('PRAGMA journal_mode=WAL')
		elif mode == 'persist':
			con.execute('PRAGMA journal_mode=PERSIST')
		elif mode == 'vacuum_pagesize':
			con.execute('PRAGMA page_size=1024')
			con.execute('VACUUM')
		elif mode == 'old_layout':
			# an older table layout: the optional, never-read `extra` columns are absent
			con.execute('ALTER TABLE taxa DROP COLUMN extra')
			con.execute('ALTER TABLE genomes DROP COLUMN extra')
		elif mode == 'extra_objects':
			con.execute('CREATE TABLE alembic_version (version_num VARCHAR(32) NOT NULL)')
			con.execute("INSERT INTO alembic_version VALUES ('abc123')")
			con.execute('CREATE INDEX ix_verif_taxa_rank_name ON taxa (rank, name)')
			con.execute('CREATE VIEW verif_view AS SELECT key FROM genomes')
		elif mode == 'user_version':
			con.execute('PRAGMA user_version=7')
			con.execute('PRAGMA application_id=42')
		con.commit()
		con.close()
	base = (digest(gdb), digest(gs))
	# the same directory / file written in another legal way on the command line and in library calls
	style = case.get('path_style')

	def spell(pth):
		if style == 'double_slash':
			return '/' + pth                                  # //tmp/...: two leading slashes name the same place on POSIX
		if style == 'trailing_slash' and os.path.isdir(pth):
			return pth + '/'
		if style == 'dotdot':
			os.makedirs(os.path.join(d, 'side'), exist_ok=True)
			return os.path.join(d, 'side', '..', os.path.relpath(pth, d))
		if style == 'inner_double_slash':
			return os.path.dirname(pth) + '//' + os.path.basename(pth)
		return pth
	dbdir = spell(dbdir)
	gdb_arg = spell(gdb)
	kept = []   # open handles kept across steps
	nq = len(W.query_sigs)
	qpaths = H.write_genomes(os.path.join(d, 'q'), W.query_contigs, [f'q{i}.fasta' for i in range(nq)])
	qsig = os.path.join(d, 'q.gs')
	H.write_sigfile(qsig, W.query_contigs, W.k, W.prefix, [f'qid{i}' for i in range(nq)])
	qsig_other = os.path.join(d, 'q_other.gs')
	H.write_sigfile(qsig_other, W.query_contigs, W.k + 1, W.prefix, [f'qid{i}' for i in range(nq)])
	lf = os.path.join(d, 'list.txt')
	open(lf, 'w').write('\n'.join(f'q{i}.fasta' for i in range(nq)) + '\n')
	classes = set()
	events = []   # 'ok_query' | 'mutation' | 'fail'
	outn = [0]

	def out(ext):
		outn[0] += 1
		return os.path.join(d, f'out{outn[0]}.{ext}')

	def check(step_i, step):
		now = (digest(gdb), digest(gs))
		if now != base:
			which = 'genome file (.gdb)' if now[0] != base[0] else 'signature file (.gs)'
			raise Violation('database_modified:' + step['t'], f'after step {step_i} {step}: the {which} changed '
			                f'(size {base[0][1] if now[0] != base[0] else base[1][1]} -> {now[0][1] if now[0] != base[0] else now[1][1]})', case)

	try:
		for i, step in enumerate(case['steps']):
			t = step['t']
			try:
				if t == 'cli_query':
					fmt = step['fmt']
					args = ['-d', dbdir, 'query', '-o', out(fmt), '-f', fmt, '--no-progress'] + (['--strict'] if step['strict'] else [])
					if step['chan'] == 'files':
						args += qpaths
					elif step['chan'] == 'list':
						args += ['-l', lf, '--ldir', os.path.join(d, 'q')]
					else:
						args += ['-s', qsig]
					if step.get('db_via_env'):
						r = run_cli(args[2:], env={'GAMBIT_DB_PATH': dbdir})
					else:
						r = run_cli(args)
					events.append('ok_query' if r.exit_code == 0 else 'fail')
				elif t == 'cli_dist_usedb':
					args = ['-d', dbdir, 'dist', '--use-db', '-o', out('csv'), '--no-progress']
					args += (['--qs', qsig] if step['q'] == 'sig' else [x for p in qpaths for x in ('-q', p)])
					r = run_cli(args)
					events.append('ok_query' if r.exit_code == 0 else 'fail')
				elif t == 'cli_dist_mismatch':
					r = run_cli(['-d', dbdir, 'dist', '--use-db', '--qs', qsig_other, '-o', out('csv'), '--no-progress'])
					events.append('fail' if r.exit_code != 0 else 'ok_query')
				elif t == 'cli_info':
					r = run_cli(['-d', dbdir, 'signatures', 'info', '-d'] + ({'': [], 'j': ['-j'], 'i': ['-i'], 'jp': ['-j', '-p']}[step['flag']]))
					events.append('ok_other' if r.exit_code == 0 else 'fail')
				elif t == 'cli_info_file':
					r = run_cli(['signatures', 'info', gs] + (['-i'] if step.get('ids') else []))
					events.append('ok_other' if r.exit_code == 0 else 'fail')
				elif t == 'cli_create_dbparams':
					r = run_cli(['-d', dbdir, 'signatures', 'create', '--db-params', '-o', out('gs'), '--no-progress'] + qpaths[:2])
					events.append('ok_other' if r.exit_code == 0 else 'fail')
				elif t == 'cli_tree':
					r = run_cli(['-d', dbdir, 'tree', '-s', qsig, '--no-progress'] if nq >= 2 else ['-d', dbdir, 'tree', '--no-progress'] + qpaths)
					events.append('ok_other' if r.exit_code == 0 else 'fail')
				elif t == 'cli_bad':
					v = step['variant']
					if v == 'missing_file':
						args = ['-d', dbdir, 'query', '-o', out('csv'), os.path.join(d, 'does-not-exist.fasta')]
					elif v == 'bad_option':
						args = ['-d', dbdir, 'query', '--no-such-option', '-o', out('csv')] + qpaths
					elif v == 'no_input':
						args = ['-d', dbdir, 'query', '-o', out('csv')]
					elif v == 'both_inputs':
						args = ['-d', dbdir, 'query', '-o', out('csv'), '-s', qsig] + qpaths
					elif v == 'sig_mismatch':
						args = ['-d', dbdir, 'query', '-o', out('csv'), '-s', qsig_other]
					elif v == 'not_fasta':
						args = ['-d', dbdir, 'query', '-o', out('csv'), '--no-progress', gdb_arg]
					else:
						args = ['-d', dbdir, 'dist', '--use-db', '-o', out('csv')]
					r = run_cli(args)
					events.append('fail' if r.exit_code != 0 else 'ok_other')
				elif t == 'lib_query':
					from gambit.db.refdb import ReferenceDatabase
					from gambit.query import query
					db = ReferenceDatabase.load_from_dir(dbdir)
					query(db, [np.array(s, dtype=W.dtype) for s in W.query_sigs], classify_strict=step['strict'], chunksize=step['chunksize'])
					events.append('ok_query')
					if step.get('scribble') and len(db.signatures):
						# the caller edits, in place, signatures it got from the database object (sub-sampling for an experiment):
						# what it was handed are its own arrays, the files stay as they are
						for obj_ in (db.signatures[0], db.signatures[0:len(db.signatures)], db.signatures[[len(db.signatures) - 1]]):
							for arr_ in ([obj_] if isinstance(obj_, np.ndarray) else [getattr(obj_, 'values', None)]):
								if isinstance(arr_, np.ndarray) and arr_.size and arr_.flags.writeable:
									arr_[...] = 0
						classes.add('returned_arrays_edited_in_place')
					if step['keep_open']:
						kept.append(('db', db))
						classes.add('handles_kept_open')
					else:
						db.signatures.close(); db.session.close(); db.session.get_bind().dispose()
				elif t == 'lib_edit':
					from gambit.db import load_genomeset, file_sessionmaker, Genome, Taxon, ReferenceGenomeSet
					if step['via'] == 'load_genomeset':
						session, gset = load_genomeset(gdb_arg)
					elif step['via'] == 'refdb':
						from gambit.db.refdb import ReferenceDatabase
						db = ReferenceDatabase.load_from_dir(dbdir)
						session, gset = db.session, db.genomeset
						kept.append(('sigs', db.signatures))
					else:
						session = file_sessionmaker(gdb_arg)()
						gset = session.query(ReferenceGenomeSet).one()
					events.append('mutation')
					n_genomes = session.execute(text('SELECT COUNT(*) FROM genomes')).scalar()
					n_taxa = session.execute(text('SELECT COUNT(*) FROM taxa')).scalar()
					taxon = gset.taxa.first()
					tid, tname = taxon.id, taxon.name
					what = step['what']
					if what == 'attr':
						taxon.name = 'EDITED BY VERIF'
						taxon.distance_threshold = 0.123
					elif what == 'add':
						session.add(Genome(key='verif/new-genome', description='added'))
					elif what == 'delete':
						session.delete(taxon)
					elif what == 'gset':
						gset.name = 'renamed'
					elif what == 'attr_then_delete':
						# one object both modified and marked for deletion before the next flush
						taxon.name = 'EDITED BY VERIF'
						taxon.distance_threshold = 0.123
						session.delete(taxon)
					elif what == 'annotation_edit_delete':
						ag = gset.genomes.first()
						ag.organism = 'EDITED BY VERIF'
						session.delete(ag)
					committed = None
					for act in step['then']:
						try:
							if act == 'flush':
								session.flush()
							elif act == 'autoflush_query':
								session.query(Taxon).filter(Taxon.name == 'EDITED BY VERIF').count()
								session.query(Genome).count()
						except Exception as e:
							if 'readonly database' in str(e) or 'attempt to write' in str(e):
								# the file is opened read-only, so SQLite refused it - but the session did try to flush pending changes
								raise Violation('write_attempted', f'step {i} {step}: {act} made the default session send a write to the database: {str(e)[:200]}', case)
							raise
						if act in ('flush', 'autoflush_query'):
							continue
						if act == 'commit':
							try:
								session.commit()
								committed = True
							except Exception:
								committed = False
						elif act == 'rollback':
							session.rollback()
					if committed:
						raise Violation('commit_allowed', f'step {i} {step}: the default database session accepted commit()', case)
					if 'commit' in step['then']:
						classes.add('commit_attempt')
					# nothing flushed: raw SQL on the session's own connection shows the original rows
					try:
						row = session.execute(text('SELECT name FROM taxa WHERE id = :i'), {'i': tid}).scalar()
						g2 = session.execute(text('SELECT COUNT(*) FROM genomes')).scalar()
						t2 = session.execute(text('SELECT COUNT(*) FROM taxa')).scalar()
						gn = session.execute(text('SELECT name FROM genome_sets')).scalar()
					except Exception as e:
						raise Violation('exception', f'step {i}: raw SELECT failed: {type(e).__name__}: {e}', case)
					if row != tname or g2 != n_genomes or t2 != n_taxa or gn == 'renamed':
						raise Violation('pending_changes_flushed', f'step {i} {step}: the session flushed pending changes to its connection '
						                f'(taxon name {row!r} vs {tname!r}, genomes {g2} vs {n_genomes}, taxa {t2} vs {n_taxa}, set name {gn!r})', case)
					if step['close']:
						session.close()
						session.get_bind().dispose()
					else:
						kept.append(('session', session))
						classes.add('handles_kept_open')
					classes.add('edit:' + what)
				elif t == 'lib_writable_elsewhere':
					# the user edits a database of their own (unrelated file) with a writable session in the same process
					from gambit.db import file_sessionmaker, Genome
					from gambit.db.models import Base
					from sqlalchemy.orm import Session as SASession
					other = os.path.join(d, f'own{i}.db')
					kw_ = {'readonly': False} if step['how'] == 'readonly_false' else {'cls': SASession}
					mk = file_sessionmaker(other, **kw_)
					so = mk()
					Base.metadata.create_all(so.get_bind())
					so.add(Genome(key=f'mine{i}', description='my own genome'))
					so.commit()
					so.close(); so.get_bind().dispose()
					events.append('ok_other')
				elif t == 'lib_open_sigs_twice':
					from gambit.sigs.base import load_signatures
					a = load_signatures(gs)
					b = load_signatures(gs)
					_ = a[0], b[len(b) - 1], list(a.ids)
					a.close()
					kept.append(('sigs', b))
					events.append('ok_other')
				elif t == 'lock_gs':
					# another program holds an exclusive advisory lock on the signature file (or releases it again): read-side
					# commands may fail with a locking error meanwhile, but must not fall back to anything that writes
					import fcntl
					held = [h for kind, h in kept if kind == 'lockfd']
					if held:
						for fd in held:
							os.close(fd)
						kept[:] = [(kind, h) for kind, h in kept if kind != 'lockfd']
					else:
						fd = os.open(gs, os.O_RDONLY)
						fcntl.flock(fd, fcntl.LOCK_EX | fcntl.LOCK_NB)
						kept.append(('lockfd', fd))
						classes.add('signature_file_locked_elsewhere')
					events.append('ok_other')
				elif t == 'close_handles':
					for kind, h in kept:
						try:
							if kind == 'db':
								h.signatures.close(); h.session.close(); h.session.get_bind().dispose()
							elif kind == 'session':
								h.close(); h.get_bind().dispose()
							elif kind == 'lockfd':
								os.close(h)
							else:
								h.close()
						except Exception:
							pass
					kept.clear()
					import gc
					gc.collect()
				else:
					raise ValueError(t)
			except Violation:
				raise
			except ValueError:
				raise
			except Exception as e:
				# a library step failing is not this property's concern; the invariant below still is
				events.append('fail')
				classes.add('step_exception:' + type(e).__name__)
			classes.add('step:' + t)
			check(i, step)
	finally:
		for kind, h in kept:
			try:
				if kind == 'db':
					h.signatures.close(); h.session.close(); h.session.get_bind().dispose()
				elif kind == 'session':
					h.close(); h.get_bind().dispose()
				elif kind == 'lockfd':
					os.close(h)
				else:
					h.close()
			except Exception:
				pass
		# final check after everything is closed
	if mode in ('wal', 'wal_hot', 'hot_journal'):
		# connections leaked by the in-process command line are closed by the collector: SQLite checkpoints when the last one closes
		import gc
		gc.collect()
	now = (digest(gdb), digest(gs))
	shutil.rmtree(d, ignore_errors=True)
	if now != base:
		raise Violation('database_modified:at_close', 'database files changed after all handles were closed', case)
	# non-trivial: mutation attempt or failing command between two successful queries
	nontrivial = False
	idx = [j for j, e in enumerate(events) if e == 'ok_query']
	for a, b in zip(idx, idx[1:]):
		if any(e in ('mutation', 'fail') for e in events[a + 1:b]):
			nontrivial = True
	classes.add('gdb_mode=' + mode)
	if style:
		classes.add('path_style=' + style)
	if 'mutation' in events:
		classes.add('has_mutation_attempt')
	if 'fail' in events:
		classes.add('has_failing_command')
	return {'nontrivial': nontrivial, 'classes': sorted(classes), 'steps': len(case['steps'])}


STEP = st.one_of(
	st.builds(lambda c, f, s, e: {'t': 'cli_query', 'chan': c, 'fmt': f, 'strict': s, 'db_via_env': e}, st.sampled_from(['files', 'list', 'sig']),
	          st.sampled_from(['csv', 'json', 'archive']), st.booleans(), st.booleans()),
	st.builds(lambda q: {'t': 'cli_dist_usedb', 'q': q}, st.sampled_from(['sig', 'files'])),
	st.just({'t': 'cli_dist_mismatch'}),
	st.builds(lambda f: {'t': 'cli_info', 'flag': f}, st.sampled_from(['', 'j', 'i', 'jp'])),
	st.builds(lambda f: {'t': 'cli_info_file', 'ids': f}, st.booleans()),
	st.just({'t': 'cli_create_dbparams'}),
	st.just({'t': 'cli_tree'}),
	st.builds(lambda v: {'t': 'cli_bad', 'variant': v}, st.sampled_from(['missing_file', 'bad_option', 'no_input', 'both_inputs', 'sig_mismatch', 'not_fasta', 'dist_no_query'])),
	st.builds(lambda s, c, k, sc: {'t': 'lib_query', 'strict': s, 'chunksize': c, 'keep_open': k, 'scribble': sc}, st.booleans(), st.sampled_from([1000, None, 1]), st.booleans(), st.booleans()),
	st.builds(lambda via, what, then, close: {'t': 'lib_edit', 'via': via, 'what': what, 'then': then, 'close': close},
	          st.sampled_from(['load_genomeset', 'sessionmaker', 'refdb']), st.sampled_from(['attr', 'add', 'delete', 'gset', 'attr_then_delete', 'annotation_edit_delete']),
	          st.lists(st.sampled_from(['flush', 'autoflush_query', 'commit', 'rollback']), min_size=1, max_size=4), st.booleans()),
	st.builds(lambda via, what, then, close: {'t': 'lib_edit', 'via': via, 'what': what, 'then': then, 'close': close},
	          st.sampled_from(['load_genomeset', 'sessionmaker', 'refdb']), st.sampled_from(['attr', 'add', 'delete', 'gset', 'attr_then_delete', 'annotation_edit_delete']),
	          st.just(['flush', 'autoflush_query', 'commit']), st.booleans()),
	st.just({'t': 'lib_open_sigs_twice'}),
	st.just({'t': 'close_handles'}),
	st.just({'t': 'lock_gs'}),
	st.builds(lambda h: {'t': 'lib_writable_elsewhere', 'how': h}, st.sampled_from(['readonly_false', 'cls_session'])),
)


@st.composite
def gen_case(draw, tier):
	w = draw(Wd.world(max_refs=4, min_refs=2, max_queries=3, min_queries=2, nasty_names=False))
	steps = draw(st.lists(STEP, min_size=5, max_size=25))
	return {'kind': 'history', 'world': w, 'steps': steps, 'gdb_mode': draw(st.sampled_from(['default', 'wal', 'default', 'persist', 'vacuum_pagesize', 'wal', 'user_version', 'old_layout', 'extra_objects', 'wal_hot', 'hot_journal'])),
	        'path_style': draw(st.sampled_from([None, 'double_slash', None, 'trailing_slash', 'dotdot', 'inner_double_slash']))}


def strategy(tier):
	return gen_case(tier)
