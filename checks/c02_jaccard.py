"""C02 — Jaccard distance equals |A xor B| / |A or B|, correctly rounded to float32."""

import itertools

from hypothesis import strategies as st

from vlib.harness import Violation
from vlib.refmodel import jaccard as J

ID = 'C02'
LEVEL = 'exploration'
DTYPES = ['u2', 'u4', 'u8', 'i2', 'i4', 'i8']
DMAX = {'u2': 2 ** 16 - 1, 'u4': 2 ** 32 - 1, 'u8': 2 ** 64 - 1, 'i2': 2 ** 15 - 1, 'i4': 2 ** 31 - 1, 'i8': 2 ** 63 - 1}
U_QUICK = [0, 1, 2, 255, 32766, 32767]
U_THOROUGH = [0, 1, 2, 3, 255, 256, 32766, 32767]
# values that alias each other when truncated to 16 / 32 bits (each side is restricted to what its dtype can hold)
U_ALIAS = [1, 2, 2 ** 16 + 1, 2 ** 16 + 2, 2 ** 32 + 1, 2 ** 32 + 2 ** 16 + 2]
U_ALIAS_THOROUGH = [1, 2, 2 ** 15 + 1, 2 ** 16 + 1, 2 ** 16 + 2, 2 ** 31 + 1, 2 ** 32 + 1, 2 ** 32 + 2 ** 16 + 2]
RULE = ('Exhaustive: all ordered pairs of subsets of a small universe (6 values quick / 8 thorough, chosen to fit every dtype '
        'incl. int16 max) x all 36 dtype pairs. Generated: universes placed around 0, 2^15, 2^16, 2^31, 2^32, 2^63 and ending at '
        '2^64-1; A,B drawn by pattern (independent, equal, disjoint, nested, interleaved, same last, prefix, one/both empty), each '
        'restricted to what its dtype can hold; all 36 dtype pairs; both argument orders; contiguous and strided array views. '
        'Oracle: exact integer ratio rounded half-even once to binary32 in integer arithmetic, compared bit-for-bit. '
        'Non-trivial: both sets non-empty and 0 < d < 1; distinct by case hash (enumerated pairs are distinct by construction).')
ASSUMPTIONS = ['signed arrays only hold non-negative values (documented precondition of gambit.metric)',
               'sets of >= 2^24 elements (where single rounding is not guaranteed) are not built']
ENUMERATED = {'quick': ['all 4096 ordered pairs of subsets of {0,1,2,255,32766,32767} x 36 dtype pairs', 'all 4096 ordered pairs of subsets of a universe whose values alias modulo 2^16 / 2^32 ({1,2,2^16+1,2^16+2,2^32+1,2^32+2^16+2}), each side restricted to its dtype, x 36 dtype pairs'],
              'thorough': ['all 65536 ordered pairs of subsets of {0,1,2,3,255,256,32766,32767} x 36 dtype pairs', 'all 65536 ordered pairs of subsets of an 8-value universe aliasing modulo 2^15/2^16/2^31/2^32, each side restricted to its dtype, x 36 dtype pairs']}
DEADLINE_S = {'quick': 200, 'thorough': 1500}


def _np():
	import numpy as np
	from gambit.metric import jaccarddist, jaccard
	return np, jaccarddist, jaccard


def enum_cases(tier):
	U = U_QUICK if tier == 'quick' else U_THOROUGH
	for amask in range(2 ** len(U)):
		yield {'kind': 'subset_block', 'universe': U, 'amask': amask}
	UA = U_ALIAS if tier == 'quick' else U_ALIAS_THOROUGH
	for amask in range(2 ** len(UA)):
		yield {'kind': 'subset_block', 'universe': UA, 'amask': amask, 'restrict': True}


def check_pair(a, b, da, db, np, jaccarddist, jaccard, case, strided=False, check_index=True):
	"""a, b: sorted lists of distinct Python ints that fit da / db."""
	if (len(a) + 2 * len(b)) % 3 == 0:
		# the same 64-bit integer types under NumPy's other names (C long long: equal dtype, distinct scalar type object),
		# as produced by array.array('q'), ctypes buffers or dtype=np.longlong
		da = {'i8': 'q', 'u8': 'Q'}.get(da, da)
		db = {'i8': 'q', 'u8': 'Q'}.get(db, db)
	if strided:
		bufa = np.zeros(2 * len(a) + 1, dtype=da)
		bufa[::2][:len(a)] = np.array(a, dtype=da) if a else []
		arr_a = bufa[::2][:len(a)]
		bufb = np.zeros(3 * len(b) + 2, dtype=db)
		bufb[1::3][:len(b)] = np.array(b, dtype=db) if b else []
		arr_b = bufb[1::3][:len(b)]
	else:
		arr_a = np.array(a, dtype=da)
		arr_b = np.array(b, dtype=db)
	exp_bits = J.ref_dist_bits(a, b)
	for (x, y, tag) in ((arr_a, arr_b, 'ab'), (arr_b, arr_a, 'ba')):
		try:
			d = jaccarddist(x, y)
		except Exception as e:
			raise Violation('exception', f'jaccarddist raised {type(e).__name__}: {e} for dtypes {x.dtype},{y.dtype}', case)
		d64 = float(d)
		d32 = np.float32(d64)
		if float(d32) != d64:
			raise Violation('not_binary32', f'jaccarddist returned {d64!r}, not a binary32 value', case)
		got_bits = J.float_to_bits(d32)
		if got_bits != exp_bits:
			raise Violation('wrong_distance',
			                f'jaccarddist({tag}) = {d64!r} (bits {got_bits:#010x}); exact |AxorB|/|AorB| rounded to float32 is '
			                f'{J.bits_to_float(exp_bits)!r} (bits {exp_bits:#010x}); |A|={len(a)} |B|={len(b)} dtypes {x.dtype},{y.dtype}', case)
		if check_index:
			try:
				s = float(jaccard(x, y))
			except Exception as e:
				raise Violation('exception', f'jaccard raised {type(e).__name__}: {e}', case)
			ok = {1.0 - d64, float(np.float32(1) - d32)}
			if s not in ok:
				raise Violation('index_not_one_minus', f'jaccard({tag}) = {s!r}, distance = {d64!r}, 1-d = {1.0 - d64!r}', case)
	if (3 * len(a) + len(b)) % 5 == 0 and (a or b):
		# the same values stored in the other byte order (arrays read from big-endian files): such an argument may be refused
		# (ValueError / TypeError), but a distance that IS returned must be the exact one
		sw_a = arr_a.astype(arr_a.dtype.newbyteorder())
		sw_b = arr_b.astype(arr_b.dtype.newbyteorder())
		for x, y, tag in ((sw_a, arr_b, 'swapped,native'), (arr_a, sw_b, 'native,swapped'), (sw_a, sw_b, 'swapped,swapped')):
			for f, want in ((jaccarddist, exp_bits), (jaccard, None)):
				try:
					d = f(x, y)
				except (ValueError, TypeError):
					continue
				except Exception as e:
					raise Violation('exception', f'{f.__name__} raised {type(e).__name__}: {e} for byte-swapped dtypes {x.dtype},{y.dtype}', case)
				if want is not None and J.float_to_bits(np.float32(float(d))) != want:
					raise Violation('wrong_distance_byteorder', f'jaccarddist({tag}) = {float(d)!r} for dtypes {x.dtype},{y.dtype}; the exact distance is '
					                f'{J.bits_to_float(exp_bits)!r}; |A|={len(a)} |B|={len(b)}', case)
				if want is None and float(d) not in {1.0 - J.bits_to_float(exp_bits), float(np.float32(1) - np.float32(J.bits_to_float(exp_bits)))}:
					raise Violation('wrong_distance_byteorder', f'jaccard({tag}) = {float(d)!r} for dtypes {x.dtype},{y.dtype}; one minus the exact distance is '
					                f'{1.0 - J.bits_to_float(exp_bits)!r}', case)
	return exp_bits


def restrict(vals, dt):
	m = DMAX[dt]
	return [v for v in vals if v <= m]


def run_case(case, ctx):
	np, jaccarddist, jaccard = _np()
	kind = case['kind']
	if kind == 'subset_block':
		U = case['universe']
		n = len(U)
		a0 = [U[i] for i in range(n) if case['amask'] >> i & 1]
		evals = 0
		nt = 0
		for bmask in range(2 ** n):
			b0 = [U[i] for i in range(n) if bmask >> i & 1]
			for da, db in itertools.product(DTYPES, DTYPES):
				a, b = (restrict(a0, da), restrict(b0, db)) if case.get('restrict') else (a0, b0)
				one = {'kind': 'pair', 'a': a, 'b': b, 'da': da, 'db': db, 'strided': False}
				bits = check_pair(a, b, da, db, np, jaccarddist, jaccard, one, check_index=(da == 'u2'))
				evals += 1
				if a and b and 0 < bits < 0x3F800000:
					nt += 1
		return {'evals': evals, 'nontrivial_count': nt, 'classes': ['subset_block']}
	if kind == 'pair':
		da, db = case['da'], case['db']
		a = restrict(sorted(set(case['a'])), da)
		b = restrict(sorted(set(case['b'])), db)
		bits = check_pair(a, b, da, db, np, jaccarddist, jaccard, case, strided=bool(case.get('strided')))
		classes = [f'{da}x{db}', 'pattern=' + case.get('pattern', '?'), 'base=' + str(case.get('base', '?'))]
		if case.get('strided'):
			classes.append('strided')
		if not a and not b:
			classes.append('both_empty')
		elif not a or not b:
			classes.append('one_empty')
		if a and b and a[-1] == b[-1]:
			classes.append('same_last')
		if bits == 0 and (a or b):
			classes.append('equal_sets')
		if bits == 0x3F800000:
			classes.append('disjoint')
		if max(len(a), len(b)) >= 500:
			classes.append('size>=500')
		if da[1] != db[1]:
			classes.append('mixed_width')
		return {'nontrivial': bool(a and b and 0 < bits < 0x3F800000), 'classes': classes}
	raise ValueError(kind)


def budget(tier):
	return {'quick': 100000, 'thorough': 600000}[tier]


BASES_UNUSED = {
	'0': 0, '2^15': 2 ** 15 - 40, '2^16': 2 ** 16 - 40, '2^31': 2 ** 31 - 40, '2^32': 2 ** 32 - 40,
	'2^63': 2 ** 63 - 40, 'top64': 2 ** 64 - 81, 'top16': 2 ** 16 - 81, 'top32': 2 ** 32 - 81,
}


DT_PAIRS = [(x, y) for x in DTYPES for y in DTYPES if x != y] + [(x, x) for x in DTYPES]


@st.composite
def pair_case(draw, tier):
	da, db = draw(st.sampled_from(DT_PAIRS))
	lim_small, lim_big = sorted((DMAX[da], DMAX[db]))
	where = draw(st.sampled_from(['zero', 'straddle_small', 'top_big', 'pow2', 'anywhere', 'straddle_small', 'alias']))
	if where == 'zero':
		base = 0
	elif where == 'alias':
		base = 0
	elif where == 'straddle_small':
		base = lim_small - draw(st.integers(0, 80))
	elif where == 'top_big':
		base = max(0, lim_big - draw(st.integers(40, 81)))
	elif where == 'pow2':
		base = max(0, 2 ** draw(st.sampled_from([8, 15, 16, 31, 32, 63])) - draw(st.integers(0, 80)))
		if base > lim_big:
			base = lim_big - 81
	else:
		base = draw(st.integers(0, max(0, lim_big - 200)))
	base_name = where
	big = draw(st.integers(0, 19 if tier == 'thorough' else 59)) == (19 if tier == 'thorough' else 59)
	if big:
		n = draw(st.integers(200, 3000))
		import random
		rnd = random.Random(draw(st.integers(0, 2 ** 32 - 1)))
		offs = []
		cur = 0
		for _ in range(n):
			offs.append(cur)
			cur += rnd.choice((1, 1, 2, 3, 7))
		if where in ('straddle_small', 'top_big', 'pow2'):
			base = max(0, base - offs[-1] // 2)
	else:
		nu = draw(st.one_of(st.integers(2, 60), st.integers(8, 60)))
		import random as _r
		offs = sorted(_r.Random(draw(st.integers(0, 2 ** 32 - 1))).sample(range(81), nu))
		if where == 'top_big':
			base = lim_big - offs[-1]   # universe ends exactly at the top of the wider dtype
	if where == 'alias':
		# a small window repeated at +2^16, +2^32, ... so that values collide when truncated to a narrower type
		w0 = draw(st.sampled_from([0, 1, 1000, 2 ** 15 - 40, 2 ** 16 - 90]))
		win = [w0 + o for o in offs[:20]]
		shifts = [0, 2 ** 16, 2 ** 17, 2 ** 31, 2 ** 32, 2 ** 32 + 2 ** 16, 2 ** 48, 2 ** 63]
		U = sorted({v + sh for v in win for sh in shifts if v + sh <= lim_big})
	else:
		U = [base + o for o in offs if 0 <= base + o <= lim_big]
	pattern = draw(st.sampled_from(['independent', 'equal', 'disjoint_halves', 'nested', 'interleaved', 'same_last',
	                                'prefix', 'one_empty', 'both_empty', 'near_equal']))
	n = len(U)
	import random
	rnd = random.Random(draw(st.integers(0, 2 ** 32 - 1)))
	use_mask = (not big) and draw(st.integers(0, 4)) == 4
	def subset(p=None):
		if not U:
			return []
		if use_mask:
			mask = draw(st.integers(0, 2 ** n - 1))
			return [u for i, u in enumerate(U) if mask >> i & 1]
		if p is None:
			p = rnd.choice((0.15, 0.5, 0.5, 0.85))
		return [u for u in U if rnd.random() < p]
	if pattern == 'independent':
		a, b = subset(), subset()
	elif pattern == 'equal':
		a = subset(); b = list(a)
	elif pattern == 'disjoint_halves':
		cut = draw(st.integers(0, n))
		a, b = U[:cut], U[cut:]
	elif pattern == 'nested':
		b = subset()
		a = [x for x in b if rnd.random() < 0.6]
	elif pattern == 'interleaved':
		a, b = U[0::2], U[1::2]
	elif pattern == 'same_last':
		a, b = subset(), subset()
		if U:
			a = sorted(set(a) | {U[-1]}); b = sorted(set(b) | {U[-1]})
	elif pattern == 'prefix':
		a = subset(); cut = draw(st.integers(0, len(a))); b = a[:cut]
	elif pattern == 'one_empty':
		a, b = subset(), []
	elif pattern == 'both_empty':
		a, b = [], []
	else:  # near_equal
		a = subset(); b = list(a)
		if U:
			x = draw(st.sampled_from(U))
			b = sorted(set(b) ^ {x})
	if draw(st.booleans()):
		a, b = b, a
	return {'kind': 'pair', 'a': a, 'b': b, 'da': da, 'db': db, 'strided': draw(st.integers(0, 4)) == 4,
	        'pattern': pattern, 'base': base_name}


@st.composite
def skewed_case(draw, tier):
	"""One long array (4096..40000 elements, dense) against a short one - size-dependent code paths."""
	da, db = draw(st.sampled_from(DT_PAIRS))
	lim = min(DMAX[da], DMAX[db])
	import random
	rnd = random.Random(draw(st.integers(0, 2 ** 32 - 1)))
	nbig = draw(st.sampled_from([4096, 4097, 5000, 9000, 20000, 40000]))
	where = draw(st.sampled_from(['top', 'zero', 'mid']))
	step_max = draw(st.sampled_from([1, 2, 3]))
	if nbig * step_max + 10 > lim:
		nbig = max(1, lim // (step_max + 1) - 10)
	base = 0 if where == 'zero' else (lim - nbig * step_max - 5 if where == 'top' else max(0, lim // 2 - nbig))
	big = []
	cur = base
	for _ in range(nbig):
		big.append(cur)
		cur += rnd.randint(1, step_max)
	nsmall = draw(st.integers(0, 40))
	small = sorted(set(rnd.sample(big, min(nsmall, len(big))) + [min(lim, big[-1] + rnd.randint(1, 9)) for _ in range(draw(st.integers(0, 3)))]
	                   + [b + 1 for b in rnd.sample(big, min(3, len(big))) if b + 1 <= lim]))
	a, b = (big, small) if draw(st.booleans()) else (small, big)
	return {'kind': 'pair', 'a': a, 'b': b, 'da': da, 'db': db, 'strided': False, 'pattern': 'skewed_sizes', 'base': where}


def strategy(tier):
	return st.integers(0, 59).flatmap(lambda i: skewed_case(tier) if i == 59 else pair_case(tier))
