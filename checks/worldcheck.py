"""Model of query results on a synthetic world (vlib.world.World) and comparison helpers shared by the
world-level cases of C03 and by C08 / C11."""

from vlib.harness import Violation
from vlib.refmodel import jaccard as RJ
from vlib import world as Wd

CSV_HEADER = ['query', 'predicted.name', 'predicted.rank', 'predicted.ncbi_id', 'predicted.threshold', 'closest.distance',
              'closest.description', 'next.name', 'next.rank', 'next.ncbi_id', 'next.threshold']


def model_item(W, qi):
	"""Non-strict result model for query qi: indices into W.taxa / genomes."""
	e = W.expected_nonstrict(qi)
	g = e['first_min']
	t0 = W.w['genomes'][g]['taxon']
	F = W.forest
	pred = F.match(t0, e['dmin'])
	return {
		'closest': g, 'closest_candidates': e['closest_candidates'], 'dmin': e['dmin'], 'dbits': RJ.float_to_bits(e['dmin']),
		'predicted': pred, 'next': F.next_taxon(t0, e['dmin']), 'report': F.reportable(pred), 'row': e['row'],
	}


def taxon_key(t):
	return None if t is None else f'world/t{t}'


def _s(v):
	return '' if v is None else str(v)


def taxon_cells(W, t):
	if t is None:
		return ['', '', '', '']
	x = W.taxa[t]
	return [_s(x.get('name') or f'taxon{t}'), _s(x.get('rank')), _s(x.get('ncbi_id')), x['thr']]


def check_csv_row(W, qi, row, label, Violation_key, case, where):
	"""row: list of 11 strings parsed from the CSV. label: expected first cell (or None to skip)."""
	m = model_item(W, qi)
	if len(row) != len(CSV_HEADER):
		raise Violation(Violation_key + ':shape', f'{where}: row has {len(row)} cells', case)
	if label is not None and row[0] != label:
		raise Violation(Violation_key + ':label', f'{where}: label {row[0]!r}, expected {label!r}', case)
	exp_p = taxon_cells(W, m['report'])
	exp_n = taxon_cells(W, m['next'])
	for off, exp, what in ((1, exp_p, 'predicted'), (7, exp_n, 'next')):
		for j in range(3):
			if row[off + j] != exp[j]:
				raise Violation(Violation_key + ':' + what, f'{where}: {CSV_HEADER[off + j]} = {row[off + j]!r}, expected {exp[j]!r} '
				                f'(model: predicted {m["predicted"]}, report {m["report"]}, next {m["next"]}, closest genome {m["closest"]} at {m["dmin"]!r})', case)
		thr_cell = row[off + 3]
		if exp[3] == '' or exp[3] is None:
			if thr_cell != '':
				raise Violation(Violation_key + ':' + what, f'{where}: {CSV_HEADER[off + 3]} = {thr_cell!r}, expected empty', case)
		else:
			try:
				ok = float(thr_cell) == float(exp[3])
			except ValueError:
				ok = False
			if not ok:
				raise Violation(Violation_key + ':' + what, f'{where}: {CSV_HEADER[off + 3]} = {thr_cell!r}, expected {exp[3]!r}', case)
	try:
		dok = RJ.float_to_bits(float(row[5])) == m['dbits']
	except ValueError:
		dok = False
	if not dok:
		raise Violation(Violation_key + ':distance', f'{where}: closest.distance = {row[5]!r}, expected {m["dmin"]!r}', case)
	if row[6] != W.genome_desc(m['closest']):
		descs = [W.genome_desc(j) for j in m['closest_candidates']]
		raise Violation(Violation_key + ':closest', f'{where}: closest.description = {row[6]!r}, expected {W.genome_desc(m["closest"])!r} '
		                f'(genomes at the minimum distance: {descs})', case)
	return m


def check_json_item(W, qi, item, label, key, case, where, nclosest=10):
	m = model_item(W, qi)
	if label is not None and str(item['query']['name']) != label:
		raise Violation(key + ':label', f'{where}: query.name {item["query"]["name"]!r}, expected {label!r}', case)

	def check_taxon(d, t, what):
		if t is None:
			if d is not None:
				raise Violation(key + ':' + what, f'{where}: {what} = {d}, expected null', case)
			return
		x = W.taxa[t]
		if d is None or d.get('key') != taxon_key(t) or d.get('name') != (x.get('name') or f'taxon{t}') or d.get('rank') != x.get('rank') \
				or d.get('ncbi_id') != x.get('ncbi_id') or d.get('distance_threshold') != x['thr']:
			raise Violation(key + ':' + what, f'{where}: {what} = {d}, expected taxon {t} {x}', case)
	check_taxon(item['predicted_taxon'], m['report'], 'predicted_taxon')
	check_taxon(item['next_taxon'], m['next'], 'next_taxon')
	exp_list = W.closest_list(qi, nclosest)
	got = item['closest_genomes']
	if [g['genome']['key'] for g in got] != [W.genome_fields[j]['key'] for j in exp_list]:
		raise Violation(key + ':closest_genomes', f'{where}: closest_genomes {[g["genome"]["key"] for g in got]} != expected genomes {exp_list}', case)
	for g, j in zip(got, exp_list):
		f = W.genome_fields[j]
		if g['genome'].get('description') != f['description'] or float(g['distance']) != W.dist(qi, j):
			raise Violation(key + ':closest_genomes', f'{where}: entry for genome {j}: {g["genome"].get("description")!r} at {g["distance"]!r}, expected '
			                f'{f["description"]!r} at {W.dist(qi, j)!r}', case)
		mt = W.forest.match(W.w['genomes'][j]['taxon'], W.dist(qi, j))
		gk = None if g['matched_taxon'] is None else g['matched_taxon'].get('key')
		if gk != taxon_key(mt):
			raise Violation(key + ':closest_genomes', f'{where}: genome {j} matched_taxon {gk}, expected {taxon_key(mt)}', case)
	return m


def check_result_item(W, qi, item, key, case, where):
	"""Compare a gambit.query.QueryResultItem (non-strict) with the model."""
	m = model_item(W, qi)
	cr = item.classifier_result
	cm = cr.closest_match

	def tk(t):
		return None if t is None else t.key
	if cm.genome.key != W.genome_fields[m['closest']]['key'] or float(cm.distance) != m['dmin']:
		raise Violation(key + ':closest', f'{where}: closest match {cm.genome.key} at {float(cm.distance)!r}, expected genome {m["closest"]} at {m["dmin"]!r}', case)
	if tk(cr.predicted_taxon) != taxon_key(m['predicted']):
		raise Violation(key + ':predicted', f'{where}: predicted taxon {tk(cr.predicted_taxon)}, expected {taxon_key(m["predicted"])}', case)
	if (cr.primary_match is None) != (m['predicted'] is None):
		raise Violation(key + ':primary', f'{where}: primary match present={cr.primary_match is not None} but prediction={m["predicted"]}', case)
	if cr.primary_match is not None and (cr.primary_match.genome is not cm.genome or float(cr.primary_match.distance) != m['dmin']):
		raise Violation(key + ':primary', f'{where}: primary match is not the closest match', case)
	if tk(cr.next_taxon) != taxon_key(m['next']):
		raise Violation(key + ':next', f'{where}: next taxon {tk(cr.next_taxon)}, expected {taxon_key(m["next"])}', case)
	if tk(item.report_taxon) != taxon_key(m['report']):
		raise Violation(key + ':report', f'{where}: report taxon {tk(item.report_taxon)}, expected {taxon_key(m["report"])}', case)
	return m


def item_classes(W, m, qi):
	classes = []
	t0 = W.w['genomes'][m['closest']]['taxon']
	if m['predicted'] is None:
		classes.append('no_prediction')
	elif m['predicted'] != t0:
		classes.append('predicted_above_own')
	if m['predicted'] is not None and m['report'] != m['predicted']:
		classes.append('unreportable_prediction')
	if m['next'] is not None:
		classes.append('next_present')
	if len(m['closest_candidates']) > 1:
		classes.append('tie_at_min')
	if any(t['thr'] is not None and float(t['thr']) == m['dmin'] for t in W.taxa):
		classes.append('exact_threshold')
	if not W.query_sigs[qi]:
		classes.append('empty_query_signature')
	return classes


def run_world_case(case, ctx, prop):
	"""C03 level 2: world on disk -> ReferenceDatabase.load_from_dir -> query() -> QueryResultItem vs model."""
	import numpy as np
	from gambit.query import query
	W = Wd.get_world(ctx, case['world'], 'c03world')
	try:
		db = W.load_db(case.get('multi_set'))
	except Exception as e:
		raise Violation('exception', f'load_from_dir raised {type(e).__name__}: {e}', case)
	classes = set(['world'] + (['second_genome_set_in_file'] if case.get('multi_set') else []))
	nontrivial = False
	try:
		qs = [np.array(s, dtype=W.dtype) for s in W.query_sigs]
		try:
			res = query(db, qs, chunksize=case.get('chunksize', 1000))
		except Exception as e:
			raise Violation('exception', f'query raised {type(e).__name__}: {e}', case)
		if len(res.items) != len(qs):
			raise Violation('item_count', f'{len(res.items)} items for {len(qs)} queries', case)
		for qi, item in enumerate(res.items):
			m = check_result_item(W, qi, item, 'world', case, f'query {qi}')
			cl = item_classes(W, m, qi)
			classes.update(cl)
			if 'predicted_above_own' in cl or 'next_present' in cl:
				nontrivial = True
	finally:
		try:
			db.signatures.close(); db.session.close(); db.session.get_bind().dispose()
		except Exception:
			pass
	return {'nontrivial': nontrivial, 'classes': sorted(classes)}
