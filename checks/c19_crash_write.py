"""C19 — an interrupted signature-file write never yields a loadable wrong file."""

import os

from hypothesis import strategies as st

from vlib.harness import Violation, HarnessError
from vlib import sigpayload as P
from vlib import crash

ID = 'C19'
LEVEL = 'fault_enumeration'
RULE = ('Payloads from the C12 generator (both write paths: SignatureArray fast path and list/annotated path with one storage call per '
        'signature; small and multi-megabyte; with/without compression; also through `gambit signatures create`-style AnnotatedSignatures). '
        'For each payload EVERY crash point is enumerated: a forked writer is ended (SIGKILL; or SIGTERM / SIGINT, where Python-level clean-up such as `with` blocks may run) immediately before its n-th h5py call (attribute '
        'set, dataset creation, dataset write, flush, close) for n = 0..count, plus one kill right after close returned (control). Oracle: '
        'load_signatures on the file left behind either raises, or yields exactly the payload (k-mer spec, IDs, metadata, every '
        'signature, dtype); the control must load. In addition (1 generated case in 16 thorough / 40 quick) the same oracle at SYSTEM-CALL granularity: a fresh writer '
        'process under strace is SIGKILLed on entering its n-th write-type system call (pwrite64/write/ftruncate) on the output file, for every n, '
        'which places crashes inside H5Fclose as well. One evaluation = one (payload, crash point) pair; non-trivial = crash after the '
        'first attribute was written and before close returned; distinct by (payload hash, point).')
RULE += ' Further: file opens are crash points (a kill before the output path is first opened must leave it untouched); the collection may be nested wrappers or one loaded from another file; (rare) byte-granular crash points: an LD_PRELOAD shim tears a write after N bytes and kills the writer, for N at the edges and at 16 places inside every write of the complete run (medium payloads; one fixed regress case).'
ASSUMPTIONS = ['library-level crash points are h5py call boundaries, as the property states; crashes between two system calls inside H5Fclose '
               'are covered for a sample of payloads through strace fault injection (ptrace must be permitted in the sandbox)',
               'process death is modelled by SIGKILL, SIGTERM and SIGINT delivered at call boundaries: the kernel page cache survives (no power loss)']
DEADLINE_S = {'quick': 240, 'thorough': 2400}
NPROC = {'quick': 16, 'thorough': 16}


def budget(tier):
	return {'quick': 220, 'thorough': 5000}[tier]


def _cli_writer(np, case, path, ctx):
	"""`gambit signatures create` driven through the real click entry point inside the forked child."""
	from vlib import clihelp as H
	from gambit.kmers import KmerSpec
	k, prefix = case['cli_spec']
	n = case['cli_n']
	genomes = H.make_genomes(case['cli_seed'], n, nanc=2, plant=tuple(sorted({'ATGAC', prefix})), dup_prob=0.0)
	key = ('c19cli', case['cli_seed'], n, prefix)   # the genomes depend on the prefix (planted occurrences)
	if key not in ctx.cache:
		d = ctx.fresh_dir('c19cli')
		ctx.cache[key] = H.write_genomes(d, genomes, [f'genome{i}.fasta' for i in range(n)])
	files = ctx.cache[key]
	sigs = H.ref_sigs(genomes, k, prefix)
	spec = KmerSpec(k, prefix)
	arrays = [np.array(s_, dtype=spec.index_dtype) for s_ in sigs]
	p = {'k': k, 'prefix': prefix, 'dtype': None}
	exp_ids = ('str', [f'genome{i}' for i in range(n)])
	exp_meta = {'id': None, 'name': None, 'version': None, 'id_attr': None, 'description': None, 'extra': {}}

	def write():
		from gambit.cli import cli
		cli.main(['signatures', 'create', '-k', str(k), '-p', prefix, '-o', path, '--no-progress', '-c', '1'] + files, standalone_mode=False)
	return write, (spec, arrays, exp_ids, exp_meta), p


def _writer(np, p, path):
	from gambit.sigs.base import dump_signatures
	obj, spec, arrays, exp_ids, exp_meta = P.build(np, p)
	kw = {}
	if p['compression'] is not None:
		kw['compression'] = p['compression']
		if p['compression_opts'] is not None:
			kw['compression_opts'] = p['compression_opts']

	if p.get('wrap') == 'hdf5_source':
		# the collection being written is one loaded from another signature file (re-saving / converting a file): the source
		# is written once here and opened inside the writer process
		from gambit.sigs.base import load_signatures
		src = path + '.source.gs'
		dump_signatures(src, obj)

		def write():
			with load_signatures(src) as s:
				dump_signatures(path, s, **kw)
		return write, (spec, arrays, exp_ids, exp_meta)

	def write():
		dump_signatures(path, obj, **kw)
	return write, (spec, arrays, exp_ids, exp_meta)


def _prepare_path(np, path, pre):
	"""State of the output path before the write: absent, an older complete signature file, or junk."""
	if os.path.exists(path):
		os.unlink(path)
	if pre == 'old_sigfile':
		from gambit.sigs.base import dump_signatures, SignatureArray, AnnotatedSignatures, SignaturesMeta
		from gambit.kmers import KmerSpec
		old = SignatureArray([np.array([1, 5, 9], dtype='u2'), np.array([2], dtype='u2'), np.array([], dtype='u2')], KmerSpec(7, 'GG'))
		dump_signatures(path, AnnotatedSignatures(old, ['old-a', 'old-b', 'old-c'], SignaturesMeta(id='OLD FILE', id_attr='key')))
	elif pre == 'junk':
		open(path, 'wb').write(b'this was something else\n' * 50)


def _check_point(np, p, path, write, expected, n, count, labels, case):
	from gambit.sigs.base import load_signatures
	_prepare_path(np, path, case.get('preexisting'))
	before = open(path, 'rb').read() if os.path.exists(path) else None
	how = case.get('how', 'sigkill')
	status, info = crash.run_writer(write, n, how)
	if status != 'killed':
		raise HarnessError(f'writer child was not killed at point {n} ({how}): {status} {info}')
	one = dict(case)
	one.update({'kind': 'point', 'point': n})
	out_open = 'open:' + os.path.basename(path)
	first_touch = labels.index(out_open) if out_open in labels else 0
	if n <= first_touch:
		# the writer died before it first opened the output path: whatever was there before (nothing, junk, an older complete
		# signature file) must simply still be there
		now = open(path, 'rb').read() if os.path.exists(path) else None
		if now != before:
			raise Violation('touched_before_open', f'writer killed before call {n} (it had not opened the output file yet) but the path changed', one)
		return 'untouched'
	try:
		loaded = load_signatures(path)
	except Exception as e:
		if n >= count:
			raise Violation('complete_write_not_loadable', f'file written completely (killed after close) does not load: {type(e).__name__}: {e}', one)
		return 'refused'
	try:
		spec, arrays, exp_ids, exp_meta = expected
		try:
			P.compare_loaded(np, loaded, p, spec, arrays, exp_ids, exp_meta, Violation, one)
		except Violation as v:
			where = f'writer killed before call {n} of {count} ({labels[n] if n < len(labels) else "after close"}; calls so far: {",".join(labels[:n][-6:])})'
			raise Violation('partial_file_loaded', f'{where}: partial file loads as a different collection: {v.msg}', one)
	finally:
		try:
			loaded.close()
		except Exception:
			pass
	return 'loaded_complete'


SYSCALLS = 'pwrite64,write,pwritev,writev,ftruncate'


def _strace(args, path, inject_at=None, trace_out='/dev/null'):
	import subprocess, sys, shutil as _sh
	if _sh.which('strace') is None:
		return subprocess.CompletedProcess(args, 127, stdout=b'strace not found', stderr=b'')
	cmd = ['strace', '-f', '-o', trace_out, '-e', 'trace=' + SYSCALLS]
	if inject_at is not None:
		cmd += ['-e', f'inject={SYSCALLS}:signal=SIGKILL:when={inject_at}']
	cmd += ['-P', path] + args
	env = dict(os.environ)
	return subprocess.run(cmd, env=env, stdout=subprocess.PIPE, stderr=subprocess.STDOUT, timeout=600)


def run_syscall_case(case, ctx):
	"""Crash points at system-call granularity: the writer (a fresh python process under strace) is SIGKILLed on entering its
	n-th write-type system call on the output file, for every n; this places crashes *inside* H5Fclose as well."""
	import json
	import sys
	import numpy as np
	from gambit.sigs.base import load_signatures
	p = case['payload']
	d = ctx.fresh_dir('c19sys')
	try:
		pj = os.path.join(d, 'payload.json')
		json.dump(p, open(pj, 'w'))
		path = os.path.join(d, 'out.gs')
		verif = os.path.dirname(os.path.dirname(os.path.abspath(__file__)))
		wargs = [sys.executable, os.path.join(verif, 'vlib', 'crash_writer.py'), pj, path]
		trace = os.path.join(d, 'trace.txt')
		r = _strace(wargs, path, None, trace)
		if r.returncode != 0 or not os.path.exists(path):
			out_txt = r.stdout.decode('utf-8', 'replace') if isinstance(r.stdout, bytes) else str(r.stdout)
			if 'ptrace' in out_txt or 'Operation not permitted' in out_txt or 'not found' in out_txt:
				# system-call tracing is not available in this environment: the library-level crash points still run
				return {'nontrivial': False, 'classes': ['syscall_level_unavailable']}
			raise HarnessError(f'strace dry run failed ({r.returncode}): {out_txt[-500:]!r}')
		calls = [l for l in open(trace, errors='replace') if any(f' {c}(' in l or l.split(' ', 1)[-1].startswith(c + '(') for c in SYSCALLS.split(','))]
		count = len(calls)
		if count == 0:
			raise HarnessError('strace saw no write system call on the output file')
		obj, spec, arrays, exp_ids, exp_meta = P.build(np, p)
		# control: the complete file loads
		loaded = load_signatures(path)
		try:
			P.compare_loaded(np, loaded, p, spec, arrays, exp_ids, exp_meta, Violation, case)
		finally:
			loaded.close()
		points = range(1, count + 1) if count <= case.get('max_points', 60) else sorted(set(list(range(1, 21)) + list(range(count - 39, count + 1))))
		refused = ok = unstable = 0
		for n in points:
			if os.path.exists(path):
				os.unlink(path)
			r = _strace(wargs, path, n)
			if r.returncode == 0:
				# this run made fewer write calls on the file than the dry run did (the count is not a constant of the writer):
				# the write completed, there is no crash point to look at
				unstable += 1
				continue
			if r.returncode != -9 and r.returncode != 137:
				raise HarnessError(f'writer under strace was not killed at syscall {n} of {count}: rc {r.returncode}')
			one = {'kind': 'syscall_point', 'payload': p, 'point': n}
			if not os.path.exists(path):
				refused += 1
				continue
			try:
				loaded = load_signatures(path)
			except Exception:
				refused += 1
				continue
			try:
				try:
					P.compare_loaded(np, loaded, p, spec, arrays, exp_ids, exp_meta, Violation, one)
				except Violation as v:
					raise Violation('partial_file_loaded_syscall', f'writer killed on entering write syscall {n} of {count} ({calls[n - 1].strip()[:90]}): '
					                f'partial file loads as a different collection: {v.msg}', one)
				ok += 1
			finally:
				try:
					loaded.close()
				except Exception:
					pass
		return {'evals': len(points), 'nontrivial_count': max(0, len(points) - 1), 'nontrivial': True,
		        'classes': ['syscall_level', 'path=' + ('array' if p['container'].endswith('array') else 'list'), f'compression={p["compression"]}',
		                    'loads_before_last_syscall' if ok > 1 else 'only_last_syscalls_load'], 'syscalls': count}
	finally:
		import shutil
		shutil.rmtree(d, ignore_errors=True)


def _shim(ctx):
	"""Build (once per worker) the LD_PRELOAD shim that tears a write: returns its path or None if no C compiler is available."""
	import subprocess, shutil as _sh
	if 'c19_shim' in ctx.cache:
		return ctx.cache['c19_shim']
	so = None
	cc = _sh.which('gcc') or _sh.which('cc')
	if cc:
		verif = os.path.dirname(os.path.dirname(os.path.abspath(__file__)))
		out = os.path.join(ctx.tmpdir, 'cutwrite.so')
		r = subprocess.run([cc, '-shared', '-fPIC', '-O2', '-o', out, os.path.join(verif, 'vlib', 'cutwrite.c'), '-ldl'], stdout=subprocess.PIPE, stderr=subprocess.STDOUT)
		if r.returncode == 0:
			so = out
	ctx.cache['c19_shim'] = so
	return so


def run_byte_case(case, ctx):
	"""Crash points INSIDE write system calls: a fresh writer process whose writes to the output file are cut after a total of
	N bytes (the write in progress is torn, then the process is SIGKILLed), for N at the start, just inside, in the middle and just
	before the end of every write the complete run makes."""
	import json, subprocess, sys
	import numpy as np
	from gambit.sigs.base import load_signatures
	so = _shim(ctx)
	if so is None:
		return {'nontrivial': False, 'classes': ['byte_level_unavailable(no C compiler)']}
	p = case['payload']
	d = ctx.fresh_dir('c19byte')
	try:
		pj = os.path.join(d, 'payload.json')
		json.dump(p, open(pj, 'w'))
		path = os.path.join(d, 'out.gs')
		log = os.path.join(d, 'writes.log')
		verif = os.path.dirname(os.path.dirname(os.path.abspath(__file__)))
		wargs = [sys.executable, os.path.join(verif, 'vlib', 'crash_writer.py'), pj, path]
		env = dict(os.environ, LD_PRELOAD=so, VERIF_CUT_PATH=path, VERIF_CUT_LOG=log)
		env.pop('VERIF_CUT_BYTES', None)
		r = subprocess.run(wargs, env=env, stdout=subprocess.PIPE, stderr=subprocess.STDOUT, timeout=600)
		if r.returncode != 0 or not os.path.exists(log):
			raise HarnessError(f'dry run of the writer under the write-cutting shim failed ({r.returncode}): {r.stdout.decode("utf-8", "replace")[-500:]}')
		lens = [int(x) for x in open(log).read().split()]
		if not lens:
			raise HarnessError('the shim saw no write to the output file')
		obj, spec, arrays, exp_ids, exp_meta = P.build(np, p)
		loaded = load_signatures(path)
		try:
			P.compare_loaded(np, loaded, p, spec, arrays, exp_ids, exp_meta, Violation, case)
		finally:
			loaded.close()
		cuts = set()
		cum = 0
		for ln in lens:
			cuts.update({cum, cum + 1, cum + ln // 2, cum + ln - 1} if ln > 2 else {cum})
			if ln > 64:
				cuts.update(cum + ln * j // 16 for j in range(1, 16))       # large writes (a whole file image, a data block) torn at 16 places
			cum += ln
		cuts = sorted(c for c in cuts if 0 <= c < cum)
		mp = case.get('max_points', 40)
		if len(cuts) > mp:
			import random as _random
			cuts = sorted(_random.Random(case.get('cut_seed', 0) + len(cuts)).sample(cuts, mp))
		refused = ok = 0
		env.pop('VERIF_CUT_LOG', None)
		for c in cuts:
			if os.path.exists(path):
				os.unlink(path)
			env['VERIF_CUT_BYTES'] = str(c)
			r = subprocess.run(wargs, env=env, stdout=subprocess.PIPE, stderr=subprocess.STDOUT, timeout=600)
			if r.returncode not in (-9, 137):
				raise HarnessError(f'writer was not killed after {c} of {cum} bytes: rc {r.returncode} {r.stdout.decode("utf-8", "replace")[-300:]}')
			one = {'kind': 'byte_point', 'payload': p, 'point': c}
			if not os.path.exists(path):
				refused += 1
				continue
			try:
				loaded = load_signatures(path)
			except Exception:
				refused += 1
				continue
			try:
				try:
					P.compare_loaded(np, loaded, p, spec, arrays, exp_ids, exp_meta, Violation, one)
				except Violation as v:
					raise Violation('torn_write_loaded', f'writer killed after {c} of the {cum} bytes it writes to the file (inside one of its {len(lens)} writes): '
					                f'the file left behind loads as a different collection: {v.msg}', one)
				ok += 1
			finally:
				try:
					loaded.close()
				except Exception:
					pass
		return {'evals': len(cuts), 'nontrivial_count': len(cuts), 'nontrivial': True,
		        'classes': ['byte_level', 'path=' + ('array' if p['container'].endswith('array') else 'list'), f'compression={p["compression"]}'] + (['torn_write_leaves_complete_file'] if ok else []),
		        'writes': len(lens), 'bytes': cum}
	finally:
		import shutil
		shutil.rmtree(d, ignore_errors=True)


def run_case(case, ctx):
	import numpy as np
	if case['kind'] in ('byte_points', 'byte_point'):
		done = ctx.cache.get('c19_byte_cases', 0)
		if case['kind'] == 'byte_point':
			c = {'kind': 'byte_points', 'payload': case['payload'], 'max_points': 10 ** 6}
			return run_byte_case(c, ctx)
		if ctx.tier == 'quick' and done >= 1:
			case = {'kind': 'all_points', 'payload': case['payload'], 'preexisting': None, 'how': 'sigkill'}
		else:
			ctx.cache['c19_byte_cases'] = done + 1
			return run_byte_case(case, ctx)
	if case['kind'] == 'syscall_points':
		# a system-call-level case costs one fresh interpreter under strace per crash point (up to 30 s): at most 2 per worker
		# in the quick tier (Hypothesis repeats rare branches in bursts); further ones run at library level instead
		done = ctx.cache.get('c19_syscall_cases', 0)
		if ctx.tier == 'quick' and done >= 2 and not case.get('replay'):
			case = {'kind': 'all_points', 'payload': case['payload'], 'preexisting': None, 'how': 'sigkill'}
		else:
			ctx.cache['c19_syscall_cases'] = done + 1
			return run_syscall_case(case, ctx)
	if case['kind'] == 'syscall_point':
		c = dict(case)
		c['kind'] = 'syscall_points'
		return run_syscall_case(c, ctx)
	path = ctx.fresh_path('.gs')
	if case.get('writer') == 'cli':
		write, expected, p = _cli_writer(np, case, path, ctx)
	else:
		p = case['payload']
		write, expected = _writer(np, p, path)
	# dry run: count calls
	_prepare_path(np, path, case.get('preexisting'))
	status, info = crash.run_writer(write, None)
	if status != 'done':
		raise HarnessError(f'dry run failed: {status} {info}')
	count, labels = info
	if os.path.exists(path):
		os.unlink(path)
	if 'attr' not in labels or labels[-1] != 'close' or ('open:' + os.path.basename(path)) not in labels:
		raise HarnessError(f'unexpected call sequence {labels}')
	first_after_marker = labels.index('attr') + 1
	if case['kind'] == 'point':
		n = min(case['point'], count)
		r = _check_point(np, p, path, write, expected, n, count, labels, case)
		return {'nontrivial': first_after_marker <= n < count, 'classes': ['point', r]}
	evals = nt = 0
	refused = loaded = 0
	for n in range(count + 1):
		r = _check_point(np, p, path, write, expected, n, count, labels, case)
		evals += 1
		if first_after_marker <= n < count:
			nt += 1
		if r in ('refused', 'untouched'):
			refused += 1
		else:
			loaded += 1
	for pth in (path, path + '.source.gs'):
		if os.path.exists(pth):
			os.unlink(pth)
	big = case.get('writer') != 'cli' and sum(s[0] for s in p['sigs']) >= 100000
	if case.get('writer') == 'cli':
		p = dict(p, container='list', compression=None)
	classes = ['death=' + case.get('how', 'sigkill'), 'writer=' + case.get('writer', 'api'),
	           'path=' + ('array' if p['container'].endswith('array') else 'list'), f'compression={p["compression"]}',
	           'multi_megabyte' if big else 'small', 'preexisting=' + str(case.get('preexisting')), 'composed=' + str(p.get('wrap') or 'directly'), f'points={"<=16" if count <= 16 else "17-24" if count <= 24 else ">24"}']
	if loaded > 1:
		classes.append('loads_before_close_returned')
	return {'evals': evals, 'nontrivial_count': nt, 'nontrivial': True, 'classes': classes, 'points': count + 1,
	        'refused': refused, 'loaded_complete': loaded}


@st.composite
def gen_case(draw, tier):
	if draw(st.integers(0, 15 if tier == 'thorough' else 19)) == 7:
		return {'kind': 'byte_points', 'payload': draw(P.payload(max_sigs=8, allow_big=False, min_sigs=2, allow_medium=True, medium_rate=2)), 'max_points': 80 if tier == 'thorough' else 40,
		        'cut_seed': draw(st.integers(0, 1000))}
	if draw(st.integers(0, 15 if tier == 'thorough' else 39)) == (15 if tier == 'thorough' else 39):
		return {'kind': 'syscall_points', 'payload': draw(P.payload(max_sigs=8, allow_big=False)), 'max_points': 60 if tier == 'thorough' else 30}
	how = draw(st.sampled_from(['sigkill', 'sigkill', 'sigint', 'sigterm']))
	pre = draw(st.sampled_from([None, 'old_sigfile', None, 'junk', 'old_sigfile']))
	if draw(st.integers(0, 11)) == 11:
		return {'kind': 'all_points', 'writer': 'cli', 'cli_seed': draw(st.integers(0, 30)), 'cli_n': draw(st.integers(2, 6)),
		        'cli_spec': list(draw(st.sampled_from([(6, 'AT'), (11, 'ATGAC'), (8, 'TA')]))), 'how': how, 'preexisting': pre}
	p = draw(P.payload(max_sigs=10, allow_big=True, big_rate=(8 if tier == 'thorough' else 20)))
	return {'kind': 'all_points', 'payload': p, 'preexisting': pre, 'how': how}


def strategy(tier):
	return gen_case(tier)
