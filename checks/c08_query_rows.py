"""C08 — query output rows: one per input, in order, correctly labelled, context-free."""

import json
import os
import shutil

from hypothesis import strategies as st

from vlib.harness import Violation
from vlib import world as Wd
from vlib import clihelp as H
from vlib.cli import run_cli, run_cli_subprocess
from checks import worldcheck as WC
from checks.c16_dist_command import clean_name, STEM, EXT

ID = 'C08'
LEVEL = 'exploration'
RULE = ('Generated: a world (database with a non-default k-mer spec, nasty taxon names, permuted/padded signature file) with 1..5 query '
        'genomes and 2..3 batch plans per case; a plan = an ordering/multiset of the queries (duplicates allowed) x channel in {positional '
        'paths, -l list file + --ldir, -s signature file with string or integer IDs} x per-file gzip x file names (nasty stems, any '
        'extension, nested directories) x -c in {absent,1,2,4,16} x --progress/--no-progress x -f in {csv,json,archive}; plus API-level '
        'query(db, sigs, chunksize=c) for c in {None,1,2,n+1,1000}. Oracle: rows == inputs in number and order; label = basename minus '
        '.gz minus one FASTA extension (stored ID for -s); every row (all columns but the label; JSON minus path) equals the row predicted '
        'by R-KMER -> R-JAC -> R-TAX for that genome and database - hence identical in every plan (also compared across plans directly). '
        'Non-trivial: a plan with >= 2 distinct genomes in non-sorted order; one evaluation = one plan; distinct by case hash.')
ASSUMPTIONS = ['worker scheduling inside the process pool (-c) is sampled, not controlled (C13 controls completion order at the API)',
               'file names contain no newline/NUL// and, for list files, no leading/trailing blanks',
               'commands are invoked in-process through click.testing.CliRunner with -o FILE (fresh or pre-existing), a capped number per worker as real subprocesses writing to standard output']
DEADLINE_S = {'quick': 240, 'thorough': 2400}


def budget(tier):
	return {'quick': 500, 'thorough': 5000}[tier]


def run_case(case, ctx):
	import numpy as np
	W = Wd.get_world(ctx, case['world'], 'c08world')
	nq = len(W.query_sigs)
	d = ctx.fresh_dir('c08')
	classes = set()
	evals = 0
	nt = 0
	per_genome = {}   # qi -> normalised content seen in some plan
	try:
		for pi, plan in enumerate(case['plans']):
			order = [q % nq for q in plan['order']]
			chan = plan['channel']
			pd = os.path.join(d, f'p{pi}')
			os.makedirs(pd)
			out = os.path.join(pd, 'out.' + plan['fmt'])
			where = f'plan {pi} ({chan}, -f {plan["fmt"]}, -c {plan["cores"]}, order {order})'
			if chan == 'api':
				from gambit.query import query
				try:
					db = W.load_db()
					try:
						cs = plan['chunksize']
						cs = len(W.ref_sigs) + 1 if cs == 'n+1' else cs
						res = query(db, [np.array(W.query_sigs[q], dtype=W.dtype) for q in order], chunksize=cs)
						if len(res.items) != len(order):
							raise Violation('row_count', f'{where}: {len(res.items)} items for {len(order)} inputs', case)
						for pos, (q, item) in enumerate(zip(order, res.items)):
							if item.input.label != str(pos + 1):
								raise Violation('label', f'{where}: default label {item.input.label!r}, expected {pos + 1}', case)
							WC.check_result_item(W, q, item, 'api_row', case, f'{where} item {pos} (genome {q})')
					finally:
						db.signatures.close(); db.session.close(); db.session.get_bind().dispose()
				except Violation:
					raise
				except Exception as e:
					raise Violation('exception', f'{where}: {type(e).__name__}: {e}', case)
				classes.add('channel=api')
				classes.add(f'chunksize={plan["chunksize"]}')
				evals += 1
				continue
			env = None
			run_cwd = None
			args = ['-d', W.dir, 'query', '-o', out, '-f', plan['fmt']]
			if plan.get('db_via_env'):
				args, env = args[2:], {'GAMBIT_DB_PATH': W.dir}
			if chan == 'sig':
				if plan['int_ids']:
					ids = [70 + 3 * i for i in range(len(order))]
				else:
					ids = []
					for i, q in enumerate(order):
						stem = plan['names'][i % len(plan['names'])][0]
						ids.append(stem if stem not in ids else f'{stem}#{i}')
				H.write_sigfile(os.path.join(pd, 'q.gs'), [W.query_contigs[q] for q in order], W.k, W.prefix, ids)
				labels = [str(x) for x in ids]
				args += ['-s', os.path.join(pd, 'q.gs')]
			else:
				rel = []
				gzs = []
				for i, q in enumerate(order):
					stem, ext, gz = plan['names'][i % len(plan['names'])]
					nm = clean_name(stem, ext + ('.gz' if gz else ''), chan == 'list')
					if plan.get('repeat_paths') and q in order[:i]:
						# the same genome again = the very same file again (the same line repeated verbatim in a list file)
						j = order.index(q)
						rel.append(rel[j]); gzs.append(gzs[j])
						continue
					rel.append(nm if (i % 3 == 0 and nm not in rel) else os.path.join(f'sub{i}', 'deeper' if i % 2 else '', nm))
					gzs.append((plan.get('gz_members', 1) if i % 2 == 0 else True) if gz else False)
				paths = H.write_genomes(os.path.join(pd, 'base'), [W.query_contigs[q] for q in order], rel, gz=gzs, softmask=plan.get('softmask'))
				labels = [H.expected_label(p) for p in rel]
				if plan.get('symlinks') and not (plan.get('repeat_paths') and len(set(rel)) < len(rel)):
					# each input is a symbolic link (as staged by workflow managers) to a file with an unrelated name
					store = os.path.join(pd, 'store')
					os.makedirs(store, exist_ok=True)
					for i, pth in enumerate(paths):
						target = os.path.join(store, f'dataset_{i:04d}.dat')
						os.replace(pth, target)
						os.symlink(target if i % 2 else os.path.relpath(target, os.path.dirname(pth)), pth)
					classes.add('symlinked_inputs')
				if chan == 'files':
					args += paths
				else:
					lf = os.path.join(pd, 'list.txt')
					H.write_listfile(lf, rel, plan.get('list_style', 0))
					lcwd = plan.get('list_cwd') if not plan.get('symlinks') else None
					run_cwd, give = H.list_cwd_setup(lcwd, pd, os.path.join(pd, 'base'), rel, [W.query_contigs[q] for q in order])
					args += ['-l', lf] + (['--ldir', os.path.join(pd, 'base') + ('/' if plan.get('list_style', 0) % 2 else '')] if give else [])
					if lcwd:
						classes.add('list_cwd=' + lcwd)
				if any(gzs):
					classes.add('gzip_input')
				if len(set(rel)) < len(rel):
					classes.add('same_file_given_repeatedly')
			if plan['cores'] is not None:
				args += ['-c', str(plan['cores'])]
			args += ['--progress' if plan['progress'] else '--no-progress']
			out_mode = plan.get('out_mode', 'file')
			if out_mode == 'stdout':
				# the default destination (standard output) of a real process; costs an interpreter start: capped per worker
				lim = 4 if ctx.tier == 'quick' else 80
				if ctx.cache.get('c08_stdout_runs', 0) >= lim:
					out_mode = 'file'
				else:
					ctx.cache['c08_stdout_runs'] = ctx.cache.get('c08_stdout_runs', 0) + 1
			if out_mode == 'stale':
				# the output path already holds a longer, older output: nothing of it may survive
				with open(out, 'w', encoding='utf-8') as f:
					f.write(','.join(WC.CSV_HEADER) + '\n' + 'stale,row,,,,0.5,old,,,,\n' * 300 + '{"items": []}\n')
				classes.add('output_path_preexists')
			if out_mode == 'stdout':
				i = args.index('-o')
				res = run_cli_subprocess(args[:i] + args[i + 2:], env_extra=env, cwd=run_cwd)
				with open(out, 'wb') as f:
					f.write(res.stdout_bytes)
				classes.add('output_to_stdout_of_subprocess')
			else:
				res = run_cli(args, env=env, cwd=run_cwd)
			if res.exit_code != 0:
				raise Violation('command_failed', f'{where}: exit {res.exit_code}: {res.stderr[-300:]} {res.exception!r}', case)
			evals += 1
			if plan['fmt'] == 'csv':
				rows = H.read_csv(out)
				if rows[0] != WC.CSV_HEADER:
					raise Violation('csv_header', f'{where}: header {rows[0]}', case)
				body = rows[1:]
				if len(body) != len(order):
					raise Violation('row_count', f'{where}: {len(body)} rows for {len(order)} inputs', case)
				for pos, (q, row) in enumerate(zip(order, body)):
					m = WC.check_csv_row(W, q, row, labels[pos], 'csv_row', case, f'{where} row {pos} (genome {q})')
					content = ('csv', tuple(row[1:]))
					per_genome.setdefault((q, 'csv'), content)
					if per_genome[(q, 'csv')] != content:
						raise Violation('context_dependent', f'{where}: row content for genome {q} differs between plans', case)
					classes.update(WC.item_classes(W, m, q))
			elif plan['fmt'] == 'json':
				data = json.load(open(out, encoding='utf-8'))
				items = data['items']
				if len(items) != len(order):
					raise Violation('row_count', f'{where}: {len(items)} items for {len(order)} inputs', case)
				for pos, (q, item) in enumerate(zip(order, items)):
					WC.check_json_item(W, q, item, labels[pos], 'json_item', case, f'{where} item {pos} (genome {q})')
					norm = json.dumps({k: v for k, v in item.items() if k != 'query'}, sort_keys=True)
					per_genome.setdefault((q, 'json'), norm)
					if per_genome[(q, 'json')] != norm:
						raise Violation('context_dependent', f'{where}: JSON item content for genome {q} differs between plans', case)
			else:
				data = json.load(open(out, encoding='utf-8'))
				items = data['items']
				if len(items) != len(order):
					raise Violation('row_count', f'{where}: {len(items)} archive items for {len(order)} inputs', case)
				for pos, (q, item) in enumerate(zip(order, items)):
					if str(item['input']['label']) != labels[pos]:
						raise Violation('label', f'{where}: archive label {item["input"]["label"]!r}, expected {labels[pos]!r}', case)
					m = WC.model_item(W, q)
					cr = item['classifier_result']
					gk = lambda x: None if x is None else x['key']
					if gk(cr['closest_match']['genome']) != W.genome_fields[m['closest']]['key'] or gk(cr['predicted_taxon']) != WC.taxon_key(m['predicted']) \
							or gk(cr['next_taxon']) != WC.taxon_key(m['next']) or gk(item['report_taxon']) != WC.taxon_key(m['report']) \
							or H.RJ.float_to_bits(cr['closest_match']['distance']) != m['dbits']:
						raise Violation('archive_item', f'{where} item {pos} (genome {q}): archive content differs from the model', case)
					norm = json.dumps({k: v for k, v in item.items() if k != 'input'}, sort_keys=True)
					per_genome.setdefault((q, 'archive'), norm)
					if per_genome[(q, 'archive')] != norm:
						raise Violation('context_dependent', f'{where}: archive item content for genome {q} differs between plans', case)
			classes.add('channel=' + chan)
			classes.add('fmt=' + plan['fmt'])
			classes.add(f'cores={plan["cores"]}')
			if len(set(order)) < len(order):
				classes.add('duplicate_inputs')
			if len(set(order)) >= 2 and order != sorted(order):
				nt += 1
				classes.add('unsorted_batch')
			if any(any(ch in l for ch in ',"\n') for l in labels):
				classes.add('label_needs_quoting')
	finally:
		shutil.rmtree(d, ignore_errors=True)
	return {'evals': evals, 'nontrivial_count': nt, 'nontrivial': nt > 0, 'classes': sorted(classes)}


@st.composite
def gen_case(draw, tier):
	w = draw(Wd.world(max_refs=6, max_queries=5, min_queries=1))
	nq = len(w['queries'])
	plans = []
	for _ in range(draw(st.integers(2, 3))):
		chan = draw(st.sampled_from(['files', 'list', 'sig', 'files', 'api']))
		plans.append({
			'order': draw(st.lists(st.integers(0, 10), min_size=1, max_size=6)),
			'channel': chan,
			'names': draw(st.lists(st.tuples(STEM, EXT, st.booleans()).map(list), min_size=1, max_size=6)),
			'cores': draw(st.sampled_from([None, 1, 2, 4, 16])),
			'progress': draw(st.booleans()),
			'fmt': draw(st.sampled_from(['csv', 'json', 'archive', 'csv'])),
			'int_ids': draw(st.booleans()),
			'gz_members': draw(st.sampled_from([1, 2, 3])),
			'list_style': draw(st.integers(0, 4)),
			'symlinks': draw(st.sampled_from([False, False, True])),
			'db_via_env': draw(st.sampled_from([False, False, True])),
			'chunksize': draw(st.sampled_from([1000, None, 1, 2, 'n+1'])),
			'out_mode': draw(st.sampled_from(['file', 'file', 'stale', 'file', 'stdout', 'file'])),
			'list_cwd': draw(st.sampled_from([None, 'decoy', None, 'implicit'])),
			'softmask': draw(st.sampled_from([None, 3, None, 17])),
			'repeat_paths': draw(st.sampled_from([False, True, False])),
		})
	return {'kind': 'plans', 'world': w, 'plans': plans}


def strategy(tier):
	return gen_case(tier)
